(* C15 (six ways) - evaluating a source in one call, compiling it and running it, or compiling
   it and single-stepping it to the end, each with reverse recording on or off, all produce the
   same result, error, stack, variables and output.

   Recording on = [rlog s = Some l] for ANY log content l; recording off = [rlog s = None].
   [erase_log s] (= set_rlog s None) maps every recording-on state to its recording-off twin, so
   "the run on s, log dropped afterwards, is the run on erase_log s" covers recording on (with
   any history in the log) against recording off.  The equalities are on the whole result: value,
   error kind, error payload and every field of the final state (data stack, heap = variables,
   captured output, code, dictionary, contexts, meter ...) other than the log itself.

   1. recording is transparent for every API call: eval, compile (this file), next, run
      (Props/C15.v), set_limits; switching recording (set_rlog) is invisible after erase_log.
      No hypothesis on the source or the state: meta blocks and user-defined immediate words
      run at build time through the same [run] and are covered.
   2. compile then single steps = compile ;; run (every source, every state).
   3. eval = compile ;; run is Props/C15_evalrun.v (idle top-level state, no user-defined
      immediate word invoked while building - needed, see C15_user_immediate_refuted there).
   4. C15_six_way chains them.  No function of the model was found that looks at the log to
      decide anything but what to log (rnext, the reverse step, is not part of this property). *)
From Xeh Require Import Model.Prelude Model.Bits Model.Cell Model.Lexer Model.Vm Model.Words Model.Build Model.Boot.
From Xeh Require Import Proofs.VmLimits Proofs.UnwindMain Proofs.UnwindSimMain
                        Proofs.BuildLog Proofs.BuildLogMain Proofs.BuildLogSix.

(* ---------- 1. recording is transparent for the build phase ---------- *)
Theorem C15_recording_transparent_eval : forall fo pr rf fuel src s,
  res_map erase_log (eval fo pr rf fuel src s) = eval fo pr rf fuel src (erase_log s).
Proof. exact recording_transparent_eval. Qed.
Check C15_recording_transparent_eval : forall fo pr rf fuel src s,
  res_map erase_log (eval fo pr rf fuel src s) = eval fo pr rf fuel src (erase_log s).

Theorem C15_recording_transparent_compile : forall fo pr rf fuel src s,
  res_map erase_log (compile fo pr rf fuel src s) = compile fo pr rf fuel src (erase_log s).
Proof. exact recording_transparent_compile. Qed.
Check C15_recording_transparent_compile : forall fo pr rf fuel src s,
  res_map erase_log (compile fo pr rf fuel src s) = compile fo pr rf fuel src (erase_log s).

Theorem C15_recording_transparent_compile_run : forall fo pr rf fuel src s,
  res_map erase_log ((compile fo pr rf fuel src ;; run_m fo rf) s) =
  (compile fo pr rf fuel src ;; run_m fo rf) (erase_log s).
Proof. exact recording_transparent_compile_run. Qed.
Check C15_recording_transparent_compile_run : forall fo pr rf fuel src s,
  res_map erase_log ((compile fo pr rf fuel src ;; run_m fo rf) s) =
  (compile fo pr rf fuel src ;; run_m fo rf) (erase_log s).

(* the remaining API calls *)
Theorem C15_recording_transparent_next : forall fo s,
  res_map erase_log (next (native_fn fo) s) = next (native_fn fo) (erase_log s).
Proof. exact recording_transparent_next. Qed.
Check C15_recording_transparent_next : forall fo s,
  res_map erase_log (next (native_fn fo) s) = next (native_fn fo) (erase_log s).

Theorem C15_recording_transparent_steps : forall fo n s,
  steps (native_fn fo) n (erase_log s) = option_map erase_log (steps (native_fn fo) n s).
Proof. exact steps_erase. Qed.
Check C15_recording_transparent_steps : forall fo n s,
  steps (native_fn fo) n (erase_log s) = option_map erase_log (steps (native_fn fo) n s).

Theorem C15_recording_transparent_set_limits : forall s i h k,
  erase_log (set_limits s i h k) = set_limits (erase_log s) i h k.
Proof. exact recording_transparent_set_limits. Qed.
Check C15_recording_transparent_set_limits : forall s i h k,
  erase_log (set_limits s i h k) = set_limits (erase_log s) i h k.

Theorem C15_recording_switch_invisible : forall s l, erase_log (set_rlog s l) = erase_log s.
Proof. exact recording_transparent_set_rlog. Qed.
Check C15_recording_switch_invisible : forall s l, erase_log (set_rlog s l) = erase_log s.

(* ---------- 2. compile, then single steps ---------- *)
(* n successful steps from the compiled state reach a stopped machine: that state is what
   compile ;; run returns (n < rf: run is given enough fuel for the n steps) *)
Theorem C15_compile_step_stops : forall fo pr rf fuel src s sc n sn,
  compile fo pr rf fuel src s = ROk tt sc ->
  steps (native_fn fo) n sc = Some sn -> is_running sn = false -> n < rf ->
  (compile fo pr rf fuel src ;; run_m fo rf) s = ROk tt sn.
Proof. exact compile_step_stops. Qed.
Check C15_compile_step_stops : forall fo pr rf fuel src s sc n sn,
  compile fo pr rf fuel src s = ROk tt sc ->
  steps (native_fn fo) n sc = Some sn -> is_running sn = false -> n < rf ->
  (compile fo pr rf fuel src ;; run_m fo rf) s = ROk tt sn.

(* n successful steps, the machine still runs and the next step does not succeed (error or
   panic): compile ;; run returns exactly what that step returned *)
Theorem C15_compile_step_fails : forall fo pr rf fuel src s sc n sn,
  compile fo pr rf fuel src s = ROk tt sc ->
  steps (native_fn fo) n sc = Some sn -> is_running sn = true ->
  (forall u s', fetch_and_run (native_fn fo) sn <> ROk u s') -> n < rf ->
  (compile fo pr rf fuel src ;; run_m fo rf) s = fetch_and_run (native_fn fo) sn.
Proof. exact compile_step_fails. Qed.
Check C15_compile_step_fails : forall fo pr rf fuel src s sc n sn,
  compile fo pr rf fuel src s = ROk tt sc ->
  steps (native_fn fo) n sc = Some sn -> is_running sn = true ->
  (forall u s', fetch_and_run (native_fn fo) sn <> ROk u s') -> n < rf ->
  (compile fo pr rf fuel src ;; run_m fo rf) s = fetch_and_run (native_fn fo) sn.

(* a source rejected by compile: nothing is stepped or run *)
Theorem C15_compile_rejected : forall fo pr rf fuel src s k p se,
  compile fo pr rf fuel src s = RErr k p se ->
  (compile fo pr rf fuel src ;; run_m fo rf) s = RErr k p se.
Proof. exact compile_rejected. Qed.
Check C15_compile_rejected : forall fo pr rf fuel src s k p se,
  compile fo pr rf fuel src s = RErr k p se ->
  (compile fo pr rf fuel src ;; run_m fo rf) s = RErr k p se.

(* [stepped nf n s r]: r is the outcome of single stepping s to the end in n successful steps;
   [compile_stepped ... s r]: r is the outcome of compile followed by single steps (fewer
   than rf of them).  The two definitions, unfolded: *)
Theorem C15_stepped_def : forall nf n s r,
  stepped nf n s r <->
  exists sn, steps nf n s = Some sn /\
    ((is_running sn = false /\ r = ROk tt sn) \/
     (is_running sn = true /\ r = fetch_and_run nf sn /\ forall u s', r <> ROk u s')).
Proof. exact stepped_iff. Qed.
Check C15_stepped_def : forall nf n s r,
  stepped nf n s r <->
  exists sn, steps nf n s = Some sn /\
    ((is_running sn = false /\ r = ROk tt sn) \/
     (is_running sn = true /\ r = fetch_and_run nf sn /\ forall u s', r <> ROk u s')).

Theorem C15_compile_stepped_def : forall fo pr rf fuel src s r,
  compile_stepped fo pr rf fuel src s r <->
  match compile fo pr rf fuel src s with
  | ROk _ sc => exists n, n < rf /\ stepped (native_fn fo) n sc r
  | e => r = e
  end.
Proof. exact compile_stepped_iff. Qed.
Check C15_compile_stepped_def : forall fo pr rf fuel src s r,
  compile_stepped fo pr rf fuel src s r <->
  match compile fo pr rf fuel src s with
  | ROk _ sc => exists n, n < rf /\ stepped (native_fn fo) n sc r
  | e => r = e
  end.

(* run and stepping, both directions: the outcome of n < fuel steps is what run returns, and
   whatever run returns (i.e. unless it is out of fuel) is the outcome of some n < fuel steps *)
Theorem C15_stepping_is_run : forall nf n s r fuel,
  stepped nf n s r -> n < fuel -> run nf fuel s = Some r.
Proof. exact stepping_is_run. Qed.
Check C15_stepping_is_run : forall nf n s r fuel,
  stepped nf n s r -> n < fuel -> run nf fuel s = Some r.

Theorem C15_run_is_stepped : forall nf fuel s r,
  run nf fuel s = Some r -> exists n, n < fuel /\ stepped nf n s r.
Proof. exact run_is_stepped. Qed.
Check C15_run_is_stepped : forall nf fuel s r,
  run nf fuel s = Some r -> exists n, n < fuel /\ stepped nf n s r.

Theorem C15_compile_step_is_compile_run : forall fo pr rf fuel src s r,
  compile_stepped fo pr rf fuel src s r -> (compile fo pr rf fuel src ;; run_m fo rf) s = r.
Proof. exact compile_step_is_compile_run. Qed.
Check C15_compile_step_is_compile_run : forall fo pr rf fuel src s r,
  compile_stepped fo pr rf fuel src s r -> (compile fo pr rf fuel src ;; run_m fo rf) s = r.

(* the stepping outcome exists whenever the run of the compiled code is not out of fuel *)
Theorem C15_compile_run_is_compile_step : forall fo pr rf fuel src s,
  (forall sc, compile fo pr rf fuel src s = ROk tt sc -> run (native_fn fo) rf sc <> None) ->
  compile_stepped fo pr rf fuel src s ((compile fo pr rf fuel src ;; run_m fo rf) s).
Proof. exact compile_run_is_compile_step. Qed.
Check C15_compile_run_is_compile_step : forall fo pr rf fuel src s,
  (forall sc, compile fo pr rf fuel src s = ROk tt sc -> run (native_fn fo) rf sc <> None) ->
  compile_stepped fo pr rf fuel src s ((compile fo pr rf fuel src ;; run_m fo rf) s).

Theorem C15_compile_stepped_recording : forall fo pr rf fuel src s r,
  compile_stepped fo pr rf fuel src s r ->
  compile_stepped fo pr rf fuel src (erase_log s) (res_map erase_log r).
Proof. exact compile_stepped_erase. Qed.
Check C15_compile_stepped_recording : forall fo pr rf fuel src s r,
  compile_stepped fo pr rf fuel src s r ->
  compile_stepped fo pr rf fuel src (erase_log s) (res_map erase_log r).

(* ---------- 4. the six ways ---------- *)
(* s: an idle top-level state with recording on (any log) or off; erase_log s: its recording-off
   twin.  E = eval on s.  compile ;; run on s and compile-then-step on s (outcome r) are E;
   eval, compile ;; run and compile-then-step (outcome r') on erase_log s are E with the log
   dropped.  Hypotheses: exactly those of C15_eval_is_compile_run. *)
Theorem C15_six_way : forall fo pr rf fuel src s s1,
  (nested s = [] /\ cmode (cx s) = MEval /\ ip s = length (code s) /\
   rs_len (cx s) = length (rs s) /\ ls_len (cx s) = length (loops s) /\
   ss_ptr (cx s) = length (special s)) ->
  (context_open MEval ;; intern_source src) s = ROk tt s1 ->
  calls_bad fo pr rf 0 fuel (length (nested s1)) s1 = false ->
  forall r r',
    compile_stepped fo pr rf fuel src s r ->
    compile_stepped fo pr rf fuel src (erase_log s) r' ->
    let E := eval fo pr rf fuel src s in
    (compile fo pr rf fuel src ;; run_m fo rf) s = E /\
    r = E /\
    eval fo pr rf fuel src (erase_log s) = res_map erase_log E /\
    (compile fo pr rf fuel src ;; run_m fo rf) (erase_log s) = res_map erase_log E /\
    r' = res_map erase_log E.
Proof. exact six_way. Qed.
Check C15_six_way : forall fo pr rf fuel src s s1,
  (nested s = [] /\ cmode (cx s) = MEval /\ ip s = length (code s) /\
   rs_len (cx s) = length (rs s) /\ ls_len (cx s) = length (loops s) /\
   ss_ptr (cx s) = length (special s)) ->
  (context_open MEval ;; intern_source src) s = ROk tt s1 ->
  calls_bad fo pr rf 0 fuel (length (nested s1)) s1 = false ->
  forall r r',
    compile_stepped fo pr rf fuel src s r ->
    compile_stepped fo pr rf fuel src (erase_log s) r' ->
    let E := eval fo pr rf fuel src s in
    (compile fo pr rf fuel src ;; run_m fo rf) s = E /\
    r = E /\
    eval fo pr rf fuel src (erase_log s) = res_map erase_log E /\
    (compile fo pr rf fuel src ;; run_m fo rf) (erase_log s) = res_map erase_log E /\
    r' = res_map erase_log E.

(* the hypotheses of C15_six_way do not see the log: they hold of the recording-off twin
   exactly when they hold of the recording state *)
Theorem C15_six_way_hyps_recording : forall fo pr rf fuel src s s1,
  (context_open MEval ;; intern_source src) s = ROk tt s1 ->
  (context_open MEval ;; intern_source src) (erase_log s) = ROk tt (erase_log s1) /\
  (idle_top (erase_log s) <-> idle_top s) /\
  calls_bad fo pr rf 0 fuel (length (nested (erase_log s1))) (erase_log s1) =
  calls_bad fo pr rf 0 fuel (length (nested s1)) s1.
Proof. exact six_way_hyps_erase. Qed.
Check C15_six_way_hyps_recording : forall fo pr rf fuel src s s1,
  (context_open MEval ;; intern_source src) s = ROk tt s1 ->
  (context_open MEval ;; intern_source src) (erase_log s) = ROk tt (erase_log s1) /\
  (idle_top (erase_log s) <-> idle_top s) /\
  calls_bad fo pr rf 0 fuel (length (nested (erase_log s1))) (erase_log s1) =
  calls_bad fo pr rf 0 fuel (length (nested s1)) s1.

(* ---------- non-vacuity ---------- *)
Local Open Scope string_scope.
Definition c15w_zf (a b : Z) : Z := 0%Z.
Definition c15w_fo : fops := fops_with c15w_zf c15w_zf c15w_zf c15w_zf c15w_zf c15w_zf c15w_zf.
Definition c15w_pr : string -> option Z := fun _ => None.
(* (notations, not definitions: the examples below are then literally about eval / compile) *)
Local Notation c15w_eval src s := (eval c15w_fo c15w_pr 1000 1000 src s).
Local Notation c15w_compile src s := (compile c15w_fo c15w_pr 1000 1000 src s).
Local Notation c15w_compile_run src s :=
  ((compile c15w_fo c15w_pr 1000 1000 src ;; run_m c15w_fo 1000) s).
Definition c15w_state (r : res unit) : state := match r with ROk _ s => s | RErr _ _ s => s | _ => boot end.
Definition c15w_err (r : res unit) : option ekind := match r with RErr k _ _ => Some k | _ => None end.
Definition c15w_idle_b (s : state) : bool :=
  match nested s with [] => true | _ => false end && mode_eqb (cmode (cx s)) MEval &&
  (ip s =? length (code s))%nat && (rs_len (cx s) =? length (rs s))%nat &&
  (ls_len (cx s) =? length (loops s))%nat && (ss_ptr (cx s) =? length (special s))%nat.
Definition c15w_watch (src : string) (s : state) : bool :=
  let s1 := c15w_state ((context_open MEval ;; intern_source src) s) in
  calls_bad c15w_fo c15w_pr 1000 0 1000 (length (nested s1)) s1.
Definition c15w_log_len (s : state) : nat := match rlog s with Some l => length l | None => 0 end.

(* the boot state with recording switched on (empty log); its recording-off twin is boot *)
Definition c15w_on : state := set_rlog boot (Some []).
(* a definition, a variable, a loop, a meta block *)
Definition c15w_src : string := ": sq dup * ; 7 var v 3 0 do I sq loop #( 1 2 + #) v".
(* a definition that fails at run time *)
Definition c15w_src_fail : string := ": f 1 0 / ; 5 f".

(* the hypotheses of C15_six_way hold of the recording state and the source; the source
   succeeds; the recording side has logged 70 entries, erase_log s is boot *)
Example C15_ex_six_hyps :
  c15w_idle_b c15w_on = true /\ c15w_watch c15w_src c15w_on = false /\
  erase_log c15w_on = boot /\
  c15w_err (c15w_eval c15w_src c15w_on) = None /\
  ds (c15w_state (c15w_eval c15w_src c15w_on)) = [CInt 7; CInt 3; CInt 4; CInt 1; CInt 0] /\
  c15w_log_len (c15w_state (c15w_eval c15w_src c15w_on)) = 70 /\
  c15w_log_len (c15w_state (c15w_eval c15w_src boot)) = 0.
Proof. vm_compute. repeat split; reflexivity. Qed.

(* recording on against recording off, computed: eval, compile, compile ;; run *)
Example C15_ex_six_recording :
  res_map erase_log (c15w_eval c15w_src c15w_on) = c15w_eval c15w_src boot /\
  res_map erase_log (c15w_compile c15w_src c15w_on) = c15w_compile c15w_src boot /\
  res_map erase_log (c15w_compile_run c15w_src c15w_on) = c15w_compile_run c15w_src boot /\
  c15w_eval c15w_src c15w_on = c15w_compile_run c15w_src c15w_on /\
  c15w_log_len (c15w_state (c15w_compile c15w_src c15w_on)) = 9.
Proof. vm_compute. repeat split; reflexivity. Qed.

(* compile, then 26 single steps stop the machine in the state eval returns - recording on
   and recording off *)
Example C15_ex_six_steps :
  (exists sc sn, c15w_compile c15w_src c15w_on = ROk tt sc /\
     steps (native_fn c15w_fo) 26 sc = Some sn /\ is_running sn = false /\
     c15w_eval c15w_src c15w_on = ROk tt sn) /\
  (exists sc sn, c15w_compile c15w_src boot = ROk tt sc /\
     steps (native_fn c15w_fo) 26 sc = Some sn /\ is_running sn = false /\
     c15w_eval c15w_src boot = ROk tt sn).
Proof.
  split.
  - exists (c15w_state (c15w_compile c15w_src c15w_on)), (c15w_state (c15w_eval c15w_src c15w_on)).
    vm_compute. repeat split; reflexivity.
  - exists (c15w_state (c15w_compile c15w_src boot)), (c15w_state (c15w_eval c15w_src boot)).
    vm_compute. repeat split; reflexivity.
Qed.

(* hence the premises [compile_stepped] of C15_six_way are satisfiable *)
Example C15_ex_six_stepped :
  exists r r', r = c15w_eval c15w_src c15w_on /\ r' = c15w_eval c15w_src boot /\
    compile_stepped c15w_fo c15w_pr 1000 1000 c15w_src c15w_on r /\
    compile_stepped c15w_fo c15w_pr 1000 1000 c15w_src boot r'.
Proof.
  destruct C15_ex_six_steps as [(sc & sn & Hc & Hs & Hr & He) (sc' & sn' & Hc' & Hs' & Hr' & He')].
  exists (ROk tt sn), (ROk tt sn').
  split; [symmetry; exact He|]. split; [symmetry; exact He'|].
  assert (Hlt : 26 < 1000) by (apply Nat.ltb_lt; reflexivity).
  split; [exact (compile_stepped_stops _ _ _ _ _ _ _ _ _ Hc Hs Hr Hlt)
         | exact (compile_stepped_stops _ _ _ _ _ _ _ _ _ Hc' Hs' Hr' Hlt)].
Qed.

(* a failing run: 5 steps succeed, the 6th divides by zero; eval, compile ;; run and the
   failing step return the same error and state, with recording on and off *)
Example C15_ex_six_fail :
  c15w_idle_b c15w_on = true /\ c15w_watch c15w_src_fail c15w_on = false /\
  c15w_err (c15w_eval c15w_src_fail c15w_on) = Some EDivZero /\
  (exists sc sn, c15w_compile c15w_src_fail c15w_on = ROk tt sc /\
     steps (native_fn c15w_fo) 5 sc = Some sn /\ is_running sn = true /\
     fetch_and_run (native_fn c15w_fo) sn = c15w_eval c15w_src_fail c15w_on) /\
  c15w_compile_run c15w_src_fail c15w_on = c15w_eval c15w_src_fail c15w_on /\
  res_map erase_log (c15w_eval c15w_src_fail c15w_on) = c15w_eval c15w_src_fail boot /\
  c15w_log_len (c15w_state (c15w_eval c15w_src_fail c15w_on)) = 11.
Proof.
  split; [vm_compute; reflexivity|]. split; [vm_compute; reflexivity|].
  split; [vm_compute; reflexivity|]. split.
  - exists (c15w_state (c15w_compile c15w_src_fail c15w_on)).
    exists (c15w_state (match steps (native_fn c15w_fo) 5 (c15w_state (c15w_compile c15w_src_fail c15w_on)) with
                        | Some sn => ROk tt sn | None => RPanic end)).
    vm_compute. repeat split; reflexivity.
  - vm_compute. repeat split; reflexivity.
Qed.
