(* C14 - resource limits are hard bounds and hitting one is recoverable. *)
From Xeh Require Import Model.Prelude Model.Bits Model.Cell Model.Vm Model.Words Proofs.VmLimits.
Local Notation length := List.length.

(* every executed instruction is metered, and the meter never passes the limit *)
Theorem C14_meter_bound : forall fo s s' N,
  insn_limit s = Some N -> (meter s <= N)%Z ->
  fetch_and_run (native_fn fo) s = ROk tt s' ->
  (meter s < meter s' <= N)%Z /\ insn_limit s' = Some N.
Proof. exact meter_bound. Qed.
Check C14_meter_bound : forall fo s s' N,
  insn_limit s = Some N -> (meter s <= N)%Z ->
  fetch_and_run (native_fn fo) s = ROk tt s' ->
  (meter s < meter s' <= N)%Z /\ insn_limit s' = Some N.

(* hence at most N instructions execute after the limit is set (the meter starts at 0) *)
Theorem C14_at_most_N_steps : forall fo n s sn N,
  insn_limit s = Some N -> meter s = 0%Z -> (0 <= N)%Z ->
  steps (native_fn fo) n s = Some sn -> (Z.of_nat n <= N)%Z.
Proof. exact at_most_N_steps. Qed.
Check C14_at_most_N_steps : forall fo n s sn N,
  insn_limit s = Some N -> meter s = 0%Z -> (0 <= N)%Z ->
  steps (native_fn fo) n s = Some sn -> (Z.of_nat n <= N)%Z.

(* the instruction that would exceed the limit fails, with nothing changed *)
Theorem C14_insn_limit_is_error : forall nf s N,
  insn_limit s = Some N -> (N <= meter s)%Z -> fetch_and_run nf s = RErr ELimit None s.
Proof. exact insn_limit_is_error. Qed.
Check C14_insn_limit_is_error : forall nf s N,
  insn_limit s = Some N -> (N <= meter s)%Z -> fetch_and_run nf s = RErr ELimit None s.

(* the data stack never grows beyond the limit (or beyond what it held when the limit was set),
   whether the instruction succeeds or fails *)
Theorem C14_stack_bound : forall fo s r s' S,
  stack_limit s = Some S ->
  fetch_and_run (native_fn fo) s = r -> res_state r = Some s' ->
  length (ds s') <= Nat.max (length (ds s)) (Z.to_nat S) /\ stack_limit s' = Some S.
Proof. exact stack_bound. Qed.
Check C14_stack_bound : forall fo s r s' S,
  stack_limit s = Some S ->
  fetch_and_run (native_fn fo) s = r -> res_state r = Some s' ->
  length (ds s') <= Nat.max (length (ds s)) (Z.to_nat S) /\ stack_limit s' = Some S.

Theorem C14_push_at_limit_is_error : forall c s S,
  stack_limit s = Some S -> (S <= Z.of_nat (length (ds s)))%Z -> push_data c s = RErr ELimit None s.
Proof. exact push_at_limit_is_error. Qed.
Check C14_push_at_limit_is_error : forall c s S,
  stack_limit s = Some S -> (S <= Z.of_nat (length (ds s)))%Z -> push_data c s = RErr ELimit None s.

(* running code never allocates variables; definitions do, and they are checked *)
Theorem C14_heap_fixed_at_run_time : forall fo s r s',
  fetch_and_run (native_fn fo) s = r -> res_state r = Some s' ->
  length (heap s') = length (heap s) /\ heap_limit s' = heap_limit s.
Proof. exact heap_fixed_at_run_time. Qed.
Check C14_heap_fixed_at_run_time : forall fo s r s',
  fetch_and_run (native_fn fo) s = r -> res_state r = Some s' ->
  length (heap s') = length (heap s) /\ heap_limit s' = heap_limit s.

Theorem C14_alloc_bound : forall v s H,
  heap_limit s = Some H ->
  match alloc_heap v s with
  | ROk _ s' => (Z.of_nat (length (heap s')) <= H)%Z /\ length (heap s') = S (length (heap s))
  | RErr _ _ s' => s' = s
  | _ => False
  end.
Proof. exact alloc_bound. Qed.
Check C14_alloc_bound : forall v s H,
  heap_limit s = Some H ->
  match alloc_heap v s with
  | ROk _ s' => (Z.of_nat (length (heap s')) <= H)%Z /\ length (heap s') = S (length (heap s))
  | RErr _ _ s' => s' = s
  | _ => False
  end.

(* hitting a limit is recoverable: with the limit raised the same instruction executes as if
   the limit had never been there *)
Theorem C14_recover_stack : forall c s,
  push_data c (set_limits s (insn_limit s) (heap_limit s) None) =
  ROk tt (set_limits (set_ds (add_rstep RPopData s) (c :: ds s)) (insn_limit s) (heap_limit s) None).
Proof. exact recover_stack. Qed.
Check C14_recover_stack : forall c s,
  push_data c (set_limits s (insn_limit s) (heap_limit s) None) =
  ROk tt (set_limits (set_ds (add_rstep RPopData s) (c :: ds s)) (insn_limit s) (heap_limit s) None).
