(* C10 (continuation) - the run-time clause under the second submission style: recorded finding D42.
   "A line that fails at run time is not re-executed by later lines" is proved for `eval` (C10_eval_runs_own_code,
   Props/C10.v), which is what the REPL uses since the repair of D17.  For compile followed by run it is false: `run`
   continues at the current instruction pointer, which a run-time failure leaves at the failing instruction, and
   `compile` does not move it.  Witness on the faithful model (and on the code: ./check C10 prints the KNOWN-FINDING
   line): eval `7 1 0 / 8` fails with a division by zero; then `5` by eval leaves 5 7, by compile + run executes the
   division again (stack underflow) and never pushes 5.  The second statement says why C15_eval_is_compile_run needs its
   hypothesis that the interpreter is idle. *)
From Xeh Require Import Model.Prelude Model.Bits Model.Cell Model.Lexer Model.Vm Model.Words Model.Build Model.Boot.
From Xeh Require Import Proofs.UnwindWitness Proofs.RunResume.
Local Open Scope string_scope.

Theorem C10_compile_run_resumes_failed_source_refuted :
  d42_kind d42_failed = Some EDivZero /\
  ip (d42_state d42_failed) < List.length (code (d42_state d42_failed)) /\
  d42_kind d42_by_eval = None /\ ds (d42_state d42_by_eval) = [CInt 5; CInt 7] /\
  d42_kind d42_by_run = Some EUnderflow /\ ds (d42_state d42_by_run) = [].
Proof. exact compile_run_resumes_failed_source. Qed.
Check C10_compile_run_resumes_failed_source_refuted :
  d42_kind d42_failed = Some EDivZero /\
  ip (d42_state d42_failed) < List.length (code (d42_state d42_failed)) /\
  d42_kind d42_by_eval = None /\ ds (d42_state d42_by_eval) = [CInt 5; CInt 7] /\
  d42_kind d42_by_run = Some EUnderflow /\ ds (d42_state d42_by_run) = [].

Theorem C10_eval_is_compile_run_needs_idle :
  ~ (forall src s, eval wit_fo wit_pr wit_rf wit_fuel src s
                   = (compile wit_fo wit_pr wit_rf wit_fuel src ;; run_m wit_fo wit_rf) s).
Proof. exact eval_is_compile_run_needs_idle. Qed.
Check C10_eval_is_compile_run_needs_idle :
  ~ (forall src s, eval wit_fo wit_pr wit_rf wit_fuel src s
                   = (compile wit_fo wit_pr wit_rf wit_fuel src ;; run_m wit_fo wit_rf) s).
