(* C15, continuation: `endenum` and the drive mode (finding E3).

   `endenum` first closes the block it is in and then refuses to go on when the data stack of
   the context it returned to is not empty.  When that context is the source's own (an
   `endenum` without `enum`, inside a meta block) its data-stack mark depends on the drive mode
   (compile hides the caller's stack, eval does not: D33), so with a value on the stack eval
   reports "enum data stack contains unused elements" and compile "unbalanced enum".  The watch
   [calls_bad] reports this situation ([enum_close_bad]); the statement of
   C15_eval_is_compile_run is textually unchanged. *)
From Xeh Require Import Model.Prelude Model.Bits Model.Codec Model.Cell Model.Lexer Model.Fmt
                        Model.Vm Model.Words Model.Build Model.Boot.
From Xeh Require Import Proofs.VmLimits Proofs.NoPanicBuild Proofs.UnwindLists Proofs.UnwindFrame Proofs.UnwindInv
                        Proofs.UnwindBuild Proofs.UnwindMain Proofs.UnwindWitness
                        Proofs.MetaBase Proofs.MetaPurge Proofs.MetaBuild Proofs.MetaClose Proofs.MetaPrefix
                        Proofs.MetaBlock Proofs.MetaSeg Proofs.MetaInline Proofs.MetaFindings Proofs.EnumWitness.
Local Notation length := List.length.
Local Open Scope string_scope.
Local Open Scope list_scope.
Theorem C15_endenum_mode_refuted :
  ds e3_s = [CInt 7] /\
  (exists s, eval wit_fo wit_pr wit_rf wit_fuel e3_src e3_s = RErr EMsg None s) /\
  (exists s, compile wit_fo wit_pr wit_rf wit_fuel e3_src e3_s = RErr EFlow None s) /\
  calls_bad wit_fo wit_pr wit_rf 0 wit_fuel
            (length (nested (wit_opened e3_src e3_s))) (wit_opened e3_src e3_s) = true.
Proof. exact endenum_mode_refuted. Qed.
Check C15_endenum_mode_refuted :
  ds e3_s = [CInt 7] /\
  (exists s, eval wit_fo wit_pr wit_rf wit_fuel e3_src e3_s = RErr EMsg None s) /\
  (exists s, compile wit_fo wit_pr wit_rf wit_fuel e3_src e3_s = RErr EFlow None s) /\
  calls_bad wit_fo wit_pr wit_rf 0 wit_fuel
            (length (nested (wit_opened e3_src e3_s))) (wit_opened e3_src e3_s) = true.
