(* C02 (continued) - a run that ENDS IN A FAILED STEP can be rewound and replayed.
   Property theorems only; proofs in Proofs/VmReplayFailed.v.

   Setting: n successful steps lead from s to sn; the next step fails (RErr e p) and leaves the
   machine in sf.  Words pop their operands before they check them, so sf usually contains
   partial, logged changes.
     failed_back sn sf = 1  if the failed step logged something (log_len sn < log_len sf),
                         0  if it logged nothing (then sf is sn up to meter / captured output).
   The hypothesis [stopping sf = stopping sn] (the about-to-stop flag is not part of the reversible
   state) is necessary (C02_rnext_undoes_failed_step in Props/C02.v) and holds for every word but
   `exit` (C02_failed_stopping_noexit). *)
From Xeh Require Import Model.Prelude Model.Bits Model.Cell Model.Vm Model.Words Proofs.VmRev
                        Proofs.VmReplayBase Proofs.VmReplayWords Proofs.VmReplay Proofs.VmReplayFailed.

(* a failed step that logged nothing changed nothing that eq_rev sees *)
Theorem C02_failed_step_no_log : forall fo s k p s',
  recording s = true -> wf_marks s -> not_resolve s ->
  fetch_and_run (native_fn fo) s = RErr k p s' -> log_len s' <= log_len s ->
  stopping s' = stopping s ->
  eq_rev s' s.
Proof. exact failed_step_no_log. Qed.
Check C02_failed_step_no_log : forall fo s k p s',
  recording s = true -> wf_marks s -> not_resolve s ->
  fetch_and_run (native_fn fo) s = RErr k p s' -> log_len s' <= log_len s ->
  stopping s' = stopping s ->
  eq_rev s' s.

(* both cases in one statement: failed_back backward steps undo the failed step *)
Theorem C02_failed_step_undone : forall fo s k p s',
  recording s = true -> log_ok s -> wf_marks s -> not_resolve s ->
  fetch_and_run (native_fn fo) s = RErr k p s' -> stopping s' = stopping s ->
  exists s'', rnexts (failed_back s s') s' = Some s'' /\ eq_rev s'' s.
Proof. exact failed_step_undone. Qed.
Check C02_failed_step_undone : forall fo s k p s',
  recording s = true -> log_ok s -> wf_marks s -> not_resolve s ->
  fetch_and_run (native_fn fo) s = RErr k p s' -> stopping s' = stopping s ->
  exists s'', rnexts (failed_back s s') s' = Some s'' /\ eq_rev s'' s.

(* every word other than `exit` leaves the about-to-stop flag alone when it fails *)
Theorem C02_failed_stopping_noexit : forall fo s k p s',
  not_resolve s -> fetch_and_run (native_fn fo) s = RErr k p s' ->
  nth_error (code s) (ip s) <> Some (ONative "exit") ->
  stopping s' = stopping s.
Proof. exact failed_step_stopping_noexit. Qed.
Check C02_failed_stopping_noexit : forall fo s k p s',
  not_resolve s -> fetch_and_run (native_fn fo) s = RErr k p s' ->
  nth_error (code s) (ip s) <> Some (ONative "exit") ->
  stopping s' = stopping s.

(* REWIND.  From the failed state, failed_back + k backward steps reach the state the original
   run had after n - k steps, for every k <= n. *)
Theorem C02_failed_rewind : forall fo n k s sn e p sf,
  recording s = true -> log_ok s -> wf_marks s ->
  (forall m sm, m <= n -> steps (native_fn fo) m s = Some sm -> not_resolve sm) ->
  steps (native_fn fo) n s = Some sn ->
  fetch_and_run (native_fn fo) sn = RErr e p sf -> stopping sf = stopping sn ->
  k <= n ->
  exists s' sm, rnexts (failed_back sn sf + k) sf = Some s' /\
                steps (native_fn fo) (n - k) s = Some sm /\ eq_rev s' sm.
Proof. exact rewind_failed. Qed.
Check C02_failed_rewind : forall fo n k s sn e p sf,
  recording s = true -> log_ok s -> wf_marks s ->
  (forall m sm, m <= n -> steps (native_fn fo) m s = Some sm -> not_resolve sm) ->
  steps (native_fn fo) n s = Some sn ->
  fetch_and_run (native_fn fo) sn = RErr e p sf -> stopping sf = stopping sn ->
  k <= n ->
  exists s' sm, rnexts (failed_back sn sf + k) sf = Some s' /\
                steps (native_fn fo) (n - k) s = Some sm /\ eq_rev s' sm.

(* the failed step logged partial changes: the first backward step undoes them, k more rewind *)
Theorem C02_failed_rewind_logged : forall fo n k s sn e p sf,
  recording s = true -> log_ok s -> wf_marks s ->
  (forall m sm, m <= n -> steps (native_fn fo) m s = Some sm -> not_resolve sm) ->
  steps (native_fn fo) n s = Some sn ->
  fetch_and_run (native_fn fo) sn = RErr e p sf -> log_len sn < log_len sf -> stopping sf = stopping sn ->
  k <= n ->
  exists s' sm, rnexts (S k) sf = Some s' /\ steps (native_fn fo) (n - k) s = Some sm /\ eq_rev s' sm.
Proof. exact rewind_failed_logged. Qed.
Check C02_failed_rewind_logged : forall fo n k s sn e p sf,
  recording s = true -> log_ok s -> wf_marks s ->
  (forall m sm, m <= n -> steps (native_fn fo) m s = Some sm -> not_resolve sm) ->
  steps (native_fn fo) n s = Some sn ->
  fetch_and_run (native_fn fo) sn = RErr e p sf -> log_len sn < log_len sf -> stopping sf = stopping sn ->
  k <= n ->
  exists s' sm, rnexts (S k) sf = Some s' /\ steps (native_fn fo) (n - k) s = Some sm /\ eq_rev s' sm.

(* the failed step logged nothing: sf is the last good state, k backward steps rewind *)
Theorem C02_failed_rewind_nolog : forall fo n k s sn e p sf,
  recording s = true -> log_ok s -> wf_marks s ->
  (forall m sm, m <= n -> steps (native_fn fo) m s = Some sm -> not_resolve sm) ->
  steps (native_fn fo) n s = Some sn ->
  fetch_and_run (native_fn fo) sn = RErr e p sf -> log_len sf <= log_len sn -> stopping sf = stopping sn ->
  k <= n ->
  eq_rev sf sn /\
  exists s' sm, rnexts k sf = Some s' /\ steps (native_fn fo) (n - k) s = Some sm /\ eq_rev s' sm.
Proof. exact rewind_failed_nolog. Qed.
Check C02_failed_rewind_nolog : forall fo n k s sn e p sf,
  recording s = true -> log_ok s -> wf_marks s ->
  (forall m sm, m <= n -> steps (native_fn fo) m s = Some sm -> not_resolve sm) ->
  steps (native_fn fo) n s = Some sn ->
  fetch_and_run (native_fn fo) sn = RErr e p sf -> log_len sf <= log_len sn -> stopping sf = stopping sn ->
  k <= n ->
  eq_rev sf sn /\
  exists s' sm, rnexts k sf = Some s' /\ steps (native_fn fo) (n - k) s = Some sm /\ eq_rev s' sm.

(* REWIND AND REPLAY.  ... and stepping forward k times from there leads to the state before the
   failing step again, where the next step fails with the same error kind and payload, in a state
   related to sf.  The meter is not rewound (C02_round_trip_unmetered_refuted), so the replay needs
   room for k + 1 metered instructions counted from sf. *)
Theorem C02_failed_rewind_replay : forall fo n k s sn e p sf,
  recording s = true -> log_ok s -> wf_marks s ->
  (forall m sm, m <= n -> steps (native_fn fo) m s = Some sm -> not_resolve sm) ->
  steps (native_fn fo) n s = Some sn ->
  fetch_and_run (native_fn fo) sn = RErr e p sf -> stopping sf = stopping sn ->
  k <= n -> meter_ok (Z.of_nat k + 1) sf ->
  exists s' sm b' sf',
    rnexts (failed_back sn sf + k) sf = Some s' /\
    steps (native_fn fo) (n - k) s = Some sm /\ eq_rev s' sm /\
    steps (native_fn fo) k s' = Some b' /\ eq_rev b' sn /\
    fetch_and_run (native_fn fo) b' = RErr e p sf' /\ eq_rev sf' sf.
Proof. exact rewind_replay_failed. Qed.
Check C02_failed_rewind_replay : forall fo n k s sn e p sf,
  recording s = true -> log_ok s -> wf_marks s ->
  (forall m sm, m <= n -> steps (native_fn fo) m s = Some sm -> not_resolve sm) ->
  steps (native_fn fo) n s = Some sn ->
  fetch_and_run (native_fn fo) sn = RErr e p sf -> stopping sf = stopping sn ->
  k <= n -> meter_ok (Z.of_nat k + 1) sf ->
  exists s' sm b' sf',
    rnexts (failed_back sn sf + k) sf = Some s' /\
    steps (native_fn fo) (n - k) s = Some sm /\ eq_rev s' sm /\
    steps (native_fn fo) k s' = Some b' /\ eq_rev b' sn /\
    fetch_and_run (native_fn fo) b' = RErr e p sf' /\ eq_rev sf' sf.

(* the same with checkable hypotheses: no Resolve instruction in the code, no instruction limit,
   the failing instruction is not the word `exit` *)
Theorem C02_failed_rewind_replay_plain : forall fo n k s sn e p sf,
  recording s = true -> log_ok s -> wf_marks s -> resolve_freeb s = true -> insn_limit s = None ->
  steps (native_fn fo) n s = Some sn ->
  fetch_and_run (native_fn fo) sn = RErr e p sf ->
  nth_error (code sn) (ip sn) <> Some (ONative "exit") ->
  k <= n ->
  exists s' sm b' sf',
    rnexts (failed_back sn sf + k) sf = Some s' /\
    steps (native_fn fo) (n - k) s = Some sm /\ eq_rev s' sm /\
    steps (native_fn fo) k s' = Some b' /\ eq_rev b' sn /\
    fetch_and_run (native_fn fo) b' = RErr e p sf' /\ eq_rev sf' sf.
Proof. exact rewind_replay_failed_plain. Qed.
Check C02_failed_rewind_replay_plain : forall fo n k s sn e p sf,
  recording s = true -> log_ok s -> wf_marks s -> resolve_freeb s = true -> insn_limit s = None ->
  steps (native_fn fo) n s = Some sn ->
  fetch_and_run (native_fn fo) sn = RErr e p sf ->
  nth_error (code sn) (ip sn) <> Some (ONative "exit") ->
  k <= n ->
  exists s' sm b' sf',
    rnexts (failed_back sn sf + k) sf = Some s' /\
    steps (native_fn fo) (n - k) s = Some sm /\ eq_rev s' sm /\
    steps (native_fn fo) k s' = Some b' /\ eq_rev b' sn /\
    fetch_and_run (native_fn fo) b' = RErr e p sf' /\ eq_rev sf' sf.

(* once the failed step is undone, any interleaving of Fwd / Back moves within the positions
   0..n of the run (C02_walk's vocabulary) is tracked again, invariants included *)
Theorem C02_failed_walk : forall fo n s sn e p sf s0 w q,
  recording s = true -> log_ok s -> wf_marks s ->
  (forall m sm, m <= n -> steps (native_fn fo) m s = Some sm -> not_resolve sm) ->
  steps (native_fn fo) n s = Some sn ->
  fetch_and_run (native_fn fo) sn = RErr e p sf -> stopping sf = stopping sn ->
  rnexts (failed_back sn sf) sf = Some s0 ->
  meter_ok (Z.of_nat (fwd_count w)) s0 ->
  walk_pos n w n = Some q ->
  exists cur sq, walk (native_fn fo) w s0 = Some cur /\ steps (native_fn fo) q s = Some sq /\
                 eq_rev cur sq /\ recording cur = true /\ log_ok cur /\ wf_marks cur.
Proof. exact walk_after_failed. Qed.
Check C02_failed_walk : forall fo n s sn e p sf s0 w q,
  recording s = true -> log_ok s -> wf_marks s ->
  (forall m sm, m <= n -> steps (native_fn fo) m s = Some sm -> not_resolve sm) ->
  steps (native_fn fo) n s = Some sn ->
  fetch_and_run (native_fn fo) sn = RErr e p sf -> stopping sf = stopping sn ->
  rnexts (failed_back sn sf) sf = Some s0 ->
  meter_ok (Z.of_nat (fwd_count w)) s0 ->
  walk_pos n w n = Some q ->
  exists cur sq, walk (native_fn fo) w s0 = Some cur /\ steps (native_fn fo) q s = Some sq /\
                 eq_rev cur sq /\ recording cur = true /\ log_ok cur /\ wf_marks cur.

(* ---------- non-vacuity ---------- *)
From Xeh Require Import Model.Build Model.Boot.

(* the 5th step, `+`, pops "a" and 3 (two log entries) and then fails with a type error *)
Definition c02f_prog : string := "1 2 3 ""a"" + 7"%string.
Definition c02f_start : state :=
  match compile cex_fo (fun _ => None) 1000 1000 c02f_prog (set_rlog boot (Some [])) with
  | ROk _ s => s
  | _ => boot
  end.
Definition c02f_after (n : nat) : state :=
  match steps (native_fn cex_fo) n c02f_start with Some s => s | None => boot end.
Definition c02f_failed : state :=
  match fetch_and_run (native_fn cex_fo) (c02f_after 4) with RErr _ _ s => s | _ => boot end.

Example C02_failed_example_hypotheses :
  recording c02f_start = true /\ log_ok c02f_start /\ resolve_freeb c02f_start = true /\
  insn_limit c02f_start = None /\
  code c02f_start = [OLoadI64 1; OLoadI64 2; OLoadI64 3; OLoadStr "a"; ONative "+"; OLoadI64 7] /\
  steps (native_fn cex_fo) 4 c02f_start = Some (c02f_after 4) /\
  ds (c02f_after 4) = [CStr "a"; CInt 3; CInt 2; CInt 1] /\
  fetch_and_run (native_fn cex_fo) (c02f_after 4) = RErr EType (Some (CStr "a")) c02f_failed /\
  ds c02f_failed = [CInt 2; CInt 1] /\
  log_len (c02f_after 4) = 8 /\ log_len c02f_failed = 10 /\ failed_back (c02f_after 4) c02f_failed = 1 /\
  nth_error (code (c02f_after 4)) (ip (c02f_after 4)) = Some (ONative "+").
Proof. vm_compute. repeat split; reflexivity. Qed.
Example C02_failed_example_wf_marks : wf_marks c02f_start.
Proof. unfold wf_marks. vm_compute. repeat split; constructor. Qed.

(* rewound fully (1 + 4 backward steps reach the start), replayed (4 steps), and the 5th step
   fails again in the same way; the meter shows that the steps were executed again *)
Example C02_failed_example_rewind_replay :
  exists s' b' sf',
    rnexts 5 c02f_failed = Some s' /\ eq_rev s' c02f_start /\ ds s' = [] /\ ip s' = 0 /\
    rlog s' = Some [] /\
    steps (native_fn cex_fo) 4 s' = Some b' /\ eq_rev b' (c02f_after 4) /\
    fetch_and_run (native_fn cex_fo) b' = RErr EType (Some (CStr "a")) sf' /\
    eq_rev sf' c02f_failed /\ meter c02f_failed = 5%Z /\ meter sf' = 10%Z.
Proof.
  do 3 eexists.
  split; [vm_compute; reflexivity|]. split; [vm_compute; reflexivity|].
  split; [vm_compute; reflexivity|]. split; [vm_compute; reflexivity|].
  split; [vm_compute; reflexivity|]. split; [vm_compute; reflexivity|].
  split; [vm_compute; reflexivity|]. split; [vm_compute; reflexivity|].
  vm_compute. repeat split.
Qed.

(* partial rewinding: 1 + 2 backward steps reach position 2 *)
Example C02_failed_example_partial :
  exists s', rnexts 3 c02f_failed = Some s' /\ eq_rev s' (c02f_after 2) /\ ds s' = [CInt 2; CInt 1] /\ ip s' = 2.
Proof. eexists. split; [vm_compute; reflexivity|]. vm_compute. repeat split. Qed.

(* the other case: `drop` on an empty stack fails without having logged anything *)
Definition c02g_prog : string := "1 drop drop 7"%string.
Definition c02g_start : state :=
  match compile cex_fo (fun _ => None) 1000 1000 c02g_prog (set_rlog boot (Some [])) with
  | ROk _ s => s
  | _ => boot
  end.
Definition c02g_after (n : nat) : state :=
  match steps (native_fn cex_fo) n c02g_start with Some s => s | None => boot end.
Definition c02g_failed : state :=
  match fetch_and_run (native_fn cex_fo) (c02g_after 2) with RErr _ _ s => s | _ => boot end.

Example C02_failed_example_nolog :
  recording c02g_start = true /\ log_ok c02g_start /\ resolve_freeb c02g_start = true /\
  steps (native_fn cex_fo) 2 c02g_start = Some (c02g_after 2) /\
  (exists e p, fetch_and_run (native_fn cex_fo) (c02g_after 2) = RErr e p c02g_failed) /\
  log_len c02g_failed = log_len (c02g_after 2) /\ failed_back (c02g_after 2) c02g_failed = 0 /\
  eq_rev c02g_failed (c02g_after 2) /\ meter c02g_failed = 3%Z /\ meter (c02g_after 2) = 2%Z /\
  exists s', rnexts 2 c02g_failed = Some s' /\ eq_rev s' c02g_start.
Proof.
  split; [vm_compute; reflexivity|]. split; [vm_compute; exact I|].
  split; [vm_compute; reflexivity|]. split; [vm_compute; reflexivity|].
  split; [do 2 eexists; vm_compute; reflexivity|].
  split; [vm_compute; reflexivity|]. split; [vm_compute; reflexivity|].
  split; [vm_compute; reflexivity|]. split; [vm_compute; reflexivity|].
  split; [vm_compute; reflexivity|].
  eexists. split; vm_compute; reflexivity.
Qed.
