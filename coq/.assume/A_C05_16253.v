From Xeh Require Props.C05.
Goal True. idtac "BEGIN C05_to_uint_spec". Abort.
Print Assumptions Xeh.Props.C05.C05_to_uint_spec.
Goal True. idtac "BEGIN C05_to_int_spec". Abort.
Print Assumptions Xeh.Props.C05.C05_to_int_spec.
Goal True. idtac "BEGIN C05_alignment_independent". Abort.
Print Assumptions Xeh.Props.C05.C05_alignment_independent.
Goal True. idtac "BEGIN C05_from_int_wf". Abort.
Print Assumptions Xeh.Props.C05.C05_from_int_wf.
Goal True. idtac "BEGIN C05_roundtrip_unsigned". Abort.
Print Assumptions Xeh.Props.C05.C05_roundtrip_unsigned.
Goal True. idtac "BEGIN C05_roundtrip_signed". Abort.
Print Assumptions Xeh.Props.C05.C05_roundtrip_signed.
Goal True. idtac "BEGIN C05_layout". Abort.
Print Assumptions Xeh.Props.C05.C05_layout.
Goal True. idtac "BEGIN C05_float_roundtrip". Abort.
Print Assumptions Xeh.Props.C05.C05_float_roundtrip.
Goal True. idtac "BEGIN -". Abort.
