From Xeh Require Props.C01.
From Xeh Require Props.C01_bwd.
From Xeh Require Props.C01_struct.
Goal True. idtac "BEGIN C01_sim_is". Abort.
Print Assumptions Xeh.Props.C01.C01_sim_is.
Goal True. idtac "BEGIN C01_sim_observables". Abort.
Print Assumptions Xeh.Props.C01.C01_sim_observables.
Goal True. idtac "BEGIN C01_sim_start". Abort.
Print Assumptions Xeh.Props.C01.C01_sim_start.
Goal True. idtac "BEGIN C01_natives_respect_sim". Abort.
Print Assumptions Xeh.Props.C01.C01_natives_respect_sim.
Goal True. idtac "BEGIN C01_agrees_is". Abort.
Print Assumptions Xeh.Props.C01.C01_agrees_is.
Goal True. idtac "BEGIN C01_run_agrees_is". Abort.
Print Assumptions Xeh.Props.C01.C01_run_agrees_is.
Goal True. idtac "BEGIN C01_funs_placed_is". Abort.
Print Assumptions Xeh.Props.C01.C01_funs_placed_is.
Goal True. idtac "BEGIN C01_code_at_is". Abort.
Print Assumptions Xeh.Props.C01.C01_code_at_is.
Goal True. idtac "BEGIN C01_prog_wf_is". Abort.
Print Assumptions Xeh.Props.C01.C01_prog_wf_is.
Goal True. idtac "BEGIN C01_brk_ok_is". Abort.
Print Assumptions Xeh.Props.C01.C01_brk_ok_is.
Goal True. idtac "BEGIN C01_block_simulation". Abort.
Print Assumptions Xeh.Props.C01.C01_block_simulation.
Goal True. idtac "BEGIN C01_stmt_simulation". Abort.
Print Assumptions Xeh.Props.C01.C01_stmt_simulation.
Goal True. idtac "BEGIN C01_block_done". Abort.
Print Assumptions Xeh.Props.C01.C01_block_done.
Goal True. idtac "BEGIN C01_block_broke". Abort.
Print Assumptions Xeh.Props.C01.C01_block_broke.
Goal True. idtac "BEGIN C01_block_fail". Abort.
Print Assumptions Xeh.Props.C01.C01_block_fail.
Goal True. idtac "BEGIN C01_loops_catch_break". Abort.
Print Assumptions Xeh.Props.C01.C01_loops_catch_break.
Goal True. idtac "BEGIN C01_loop_statement". Abort.
Print Assumptions Xeh.Props.C01.C01_loop_statement.
Goal True. idtac "BEGIN C01_layout_places_functions". Abort.
Print Assumptions Xeh.Props.C01.C01_layout_places_functions.
Goal True. idtac "BEGIN C01_program_simulation". Abort.
Print Assumptions Xeh.Props.C01.C01_program_simulation.
Goal True. idtac "BEGIN C01_program_run". Abort.
Print Assumptions Xeh.Props.C01.C01_program_run.
Goal True. idtac "BEGIN C01_run_converse". Abort.
Print Assumptions Xeh.Props.C01.C01_run_converse.
Goal True. idtac "BEGIN C01_parsed_program_well_formed". Abort.
Print Assumptions Xeh.Props.C01.C01_parsed_program_well_formed.
Goal True. idtac "BEGIN C01_source_simulation". Abort.
Print Assumptions Xeh.Props.C01.C01_source_simulation.
Goal True. idtac "BEGIN C01_source_run". Abort.
Print Assumptions Xeh.Props.C01.C01_source_run.
Goal True. idtac "BEGIN C01_do_leaves_no_index". Abort.
Print Assumptions Xeh.Props.C01_struct.C01_do_leaves_no_index.
Goal True. idtac "BEGIN C01_do_leaves_no_index_machine". Abort.
Print Assumptions Xeh.Props.C01.C01_do_leaves_no_index_machine.
Goal True. idtac "BEGIN C01_repeat_never_done". Abort.
Print Assumptions Xeh.Props.C01_struct.C01_repeat_never_done.
Goal True. idtac "BEGIN C01_prog_wf_funs_nb". Abort.
Print Assumptions Xeh.Props.C01.C01_prog_wf_funs_nb.
Goal True. idtac "BEGIN C01_repeat_never_falls_through". Abort.
Print Assumptions Xeh.Props.C01.C01_repeat_never_falls_through.
Goal True. idtac "BEGIN C01_inreg_is". Abort.
Print Assumptions Xeh.Props.C01_bwd.C01_inreg_is.
Goal True. idtac "BEGIN C01_region_excludes_exit". Abort.
Print Assumptions Xeh.Props.C01_bwd.C01_region_excludes_exit.
Goal True. idtac "BEGIN C01_agreesq_is". Abort.
Print Assumptions Xeh.Props.C01_bwd.C01_agreesq_is.
Goal True. idtac "BEGIN C01_wt_block_is". Abort.
Print Assumptions Xeh.Props.C01_bwd.C01_wt_block_is.
Goal True. idtac "BEGIN C01_wt_stmt_is". Abort.
Print Assumptions Xeh.Props.C01_bwd.C01_wt_stmt_is.
Goal True. idtac "BEGIN C01_wt_arms_is". Abort.
Print Assumptions Xeh.Props.C01_bwd.C01_wt_arms_is.
Goal True. idtac "BEGIN C01_call_weight_is". Abort.
Print Assumptions Xeh.Props.C01_bwd.C01_call_weight_is.
Goal True. idtac "BEGIN C01_closed_is". Abort.
Print Assumptions Xeh.Props.C01_bwd.C01_closed_is.
Goal True. idtac "BEGIN C01_funs_closed_is". Abort.
Print Assumptions Xeh.Props.C01_bwd.C01_funs_closed_is.
Goal True. idtac "BEGIN C01_prog_closed_is". Abort.
Print Assumptions Xeh.Props.C01_bwd.C01_prog_closed_is.
Goal True. idtac "BEGIN C01_run_reflects_is". Abort.
Print Assumptions Xeh.Props.C01_bwd.C01_run_reflects_is.
Goal True. idtac "BEGIN C01_block_simulation_traced". Abort.
Print Assumptions Xeh.Props.C01_bwd.C01_block_simulation_traced.
Goal True. idtac "BEGIN C01_stmt_simulation_traced". Abort.
Print Assumptions Xeh.Props.C01_bwd.C01_stmt_simulation_traced.
Goal True. idtac "BEGIN C01_block_out_of_fuel_steps". Abort.
Print Assumptions Xeh.Props.C01_bwd.C01_block_out_of_fuel_steps.
Goal True. idtac "BEGIN C01_block_out_of_fuel_steps_quotient". Abort.
Print Assumptions Xeh.Props.C01_bwd.C01_block_out_of_fuel_steps_quotient.
Goal True. idtac "BEGIN C01_block_divergence". Abort.
Print Assumptions Xeh.Props.C01_bwd.C01_block_divergence.
Goal True. idtac "BEGIN C01_stmt_out_of_fuel_steps". Abort.
Print Assumptions Xeh.Props.C01_bwd.C01_stmt_out_of_fuel_steps.
Goal True. idtac "BEGIN C01_stmt_divergence". Abort.
Print Assumptions Xeh.Props.C01_bwd.C01_stmt_divergence.
Goal True. idtac "BEGIN C01_block_termination_reflected". Abort.
Print Assumptions Xeh.Props.C01_bwd.C01_block_termination_reflected.
Goal True. idtac "BEGIN C01_block_leaves_converse". Abort.
Print Assumptions Xeh.Props.C01_bwd.C01_block_leaves_converse.
Goal True. idtac "BEGIN C01_block_done_converse". Abort.
Print Assumptions Xeh.Props.C01_bwd.C01_block_done_converse.
Goal True. idtac "BEGIN C01_block_fail_converse". Abort.
Print Assumptions Xeh.Props.C01_bwd.C01_block_fail_converse.
Goal True. idtac "BEGIN C01_program_simulation_traced". Abort.
Print Assumptions Xeh.Props.C01_bwd.C01_program_simulation_traced.
Goal True. idtac "BEGIN C01_program_out_of_fuel_steps". Abort.
Print Assumptions Xeh.Props.C01_bwd.C01_program_out_of_fuel_steps.
Goal True. idtac "BEGIN C01_program_divergence". Abort.
Print Assumptions Xeh.Props.C01_bwd.C01_program_divergence.
Goal True. idtac "BEGIN C01_program_unsup_run". Abort.
Print Assumptions Xeh.Props.C01_bwd.C01_program_unsup_run.
Goal True. idtac "BEGIN C01_program_divergence_run". Abort.
Print Assumptions Xeh.Props.C01_bwd.C01_program_divergence_run.
Goal True. idtac "BEGIN C01_program_run_termination_reflected". Abort.
Print Assumptions Xeh.Props.C01_bwd.C01_program_run_termination_reflected.
Goal True. idtac "BEGIN C01_program_run_converse". Abort.
Print Assumptions Xeh.Props.C01_bwd.C01_program_run_converse.
Goal True. idtac "BEGIN C01_program_run_iff". Abort.
Print Assumptions Xeh.Props.C01_bwd.C01_program_run_iff.
Goal True. idtac "BEGIN C01_parsed_program_closed". Abort.
Print Assumptions Xeh.Props.C01_bwd.C01_parsed_program_closed.
Goal True. idtac "BEGIN C01_source_simulation_traced". Abort.
Print Assumptions Xeh.Props.C01_bwd.C01_source_simulation_traced.
Goal True. idtac "BEGIN C01_source_out_of_fuel_steps". Abort.
Print Assumptions Xeh.Props.C01_bwd.C01_source_out_of_fuel_steps.
Goal True. idtac "BEGIN C01_source_divergence". Abort.
Print Assumptions Xeh.Props.C01_bwd.C01_source_divergence.
Goal True. idtac "BEGIN C01_source_run_converse". Abort.
Print Assumptions Xeh.Props.C01_bwd.C01_source_run_converse.
Goal True. idtac "BEGIN C01_source_run_termination_reflected". Abort.
Print Assumptions Xeh.Props.C01_bwd.C01_source_run_termination_reflected.
Goal True. idtac "BEGIN C01_source_run_iff". Abort.
Print Assumptions Xeh.Props.C01_bwd.C01_source_run_iff.
Goal True. idtac "BEGIN C01_block_fuel_monotone". Abort.
Print Assumptions Xeh.Props.C01_struct.C01_block_fuel_monotone.
Goal True. idtac "BEGIN C01_stmt_fuel_monotone". Abort.
Print Assumptions Xeh.Props.C01_struct.C01_stmt_fuel_monotone.
Goal True. idtac "BEGIN C01_do_is_do_iter". Abort.
Print Assumptions Xeh.Props.C01_struct.C01_do_is_do_iter.
Goal True. idtac "BEGIN C01_case_is_case_go". Abort.
Print Assumptions Xeh.Props.C01_struct.C01_case_is_case_go.
Goal True. idtac "BEGIN C01_do_trips_fuel_monotone". Abort.
Print Assumptions Xeh.Props.C01_struct.C01_do_trips_fuel_monotone.
Goal True. idtac "BEGIN C01_case_arms_fuel_monotone". Abort.
Print Assumptions Xeh.Props.C01_struct.C01_case_arms_fuel_monotone.
Goal True. idtac "BEGIN C01_block_result_unique". Abort.
Print Assumptions Xeh.Props.C01_struct.C01_block_result_unique.
Goal True. idtac "BEGIN C01_stmt_result_unique". Abort.
Print Assumptions Xeh.Props.C01_struct.C01_stmt_result_unique.
Goal True. idtac "BEGIN C01_out_of_fuel_downward". Abort.
Print Assumptions Xeh.Props.C01_struct.C01_out_of_fuel_downward.
Goal True. idtac "BEGIN C01_native_words_keep_control_stacks". Abort.
Print Assumptions Xeh.Props.C01_struct.C01_native_words_keep_control_stacks.
Goal True. idtac "BEGIN C01_loop_keys_block". Abort.
Print Assumptions Xeh.Props.C01_struct.C01_loop_keys_block.
Goal True. idtac "BEGIN C01_loop_keys_stmt". Abort.
Print Assumptions Xeh.Props.C01_struct.C01_loop_keys_stmt.
Goal True. idtac "BEGIN C01_loops_block". Abort.
Print Assumptions Xeh.Props.C01_struct.C01_loops_block.
Goal True. idtac "BEGIN C01_loops_stmt". Abort.
Print Assumptions Xeh.Props.C01_struct.C01_loops_stmt.
Goal True. idtac "BEGIN C01_do_leaves_no_index". Abort.
Print Assumptions Xeh.Props.C01_struct.C01_do_leaves_no_index.
Goal True. idtac "BEGIN C01_do_leaves_no_index_exact". Abort.
Print Assumptions Xeh.Props.C01_struct.C01_do_leaves_no_index_exact.
Goal True. idtac "BEGIN C01_index_words". Abort.
Print Assumptions Xeh.Props.C01_struct.C01_index_words.
Goal True. idtac "BEGIN C01_index_word_after_do". Abort.
Print Assumptions Xeh.Props.C01_struct.C01_index_word_after_do.
Goal True. idtac "BEGIN C01_no_own_break_never_broke". Abort.
Print Assumptions Xeh.Props.C01_struct.C01_no_own_break_never_broke.
Goal True. idtac "BEGIN C01_call_never_broke". Abort.
Print Assumptions Xeh.Props.C01_struct.C01_call_never_broke.
Goal True. idtac "BEGIN C01_rs_block". Abort.
Print Assumptions Xeh.Props.C01_struct.C01_rs_block.
Goal True. idtac "BEGIN C01_rs_exact_block". Abort.
Print Assumptions Xeh.Props.C01_struct.C01_rs_exact_block.
Goal True. idtac "BEGIN C01_call_keeps_return_stack". Abort.
Print Assumptions Xeh.Props.C01_struct.C01_call_keeps_return_stack.
Goal True. idtac "BEGIN C01_check_funs_all". Abort.
Print Assumptions Xeh.Props.C01_struct.C01_check_funs_all.
Goal True. idtac "BEGIN C01_check_funs_nobreak". Abort.
Print Assumptions Xeh.Props.C01_struct.C01_check_funs_nobreak.
Goal True. idtac "BEGIN C01_size_block_app". Abort.
Print Assumptions Xeh.Props.C01_struct.C01_size_block_app.
Goal True. idtac "BEGIN C01_lay_block_length". Abort.
Print Assumptions Xeh.Props.C01_struct.C01_lay_block_length.
Goal True. idtac "BEGIN C01_lay_stmt_length". Abort.
Print Assumptions Xeh.Props.C01_struct.C01_lay_stmt_length.
Goal True. idtac "BEGIN C01_lay_block_app". Abort.
Print Assumptions Xeh.Props.C01_struct.C01_lay_block_app.
Goal True. idtac "BEGIN C01_do_zero_trip". Abort.
Print Assumptions Xeh.Props.C01_struct.C01_do_zero_trip.
Goal True. idtac "BEGIN C01_do_limits_unreadable". Abort.
Print Assumptions Xeh.Props.C01_struct.C01_do_limits_unreadable.
Goal True. idtac "BEGIN C01_do_exact_trips". Abort.
Print Assumptions Xeh.Props.C01_struct.C01_do_exact_trips.
Goal True. idtac "BEGIN C01_do_trip_index". Abort.
Print Assumptions Xeh.Props.C01_struct.C01_do_trip_index.
Goal True. idtac "BEGIN C01_repeat_never_done". Abort.
Print Assumptions Xeh.Props.C01_struct.C01_repeat_never_done.
Goal True. idtac "BEGIN C01_repeat_no_break_no_result". Abort.
Print Assumptions Xeh.Props.C01_struct.C01_repeat_no_break_no_result.
Goal True. idtac "BEGIN C01_repeat_diverges". Abort.
Print Assumptions Xeh.Props.C01_struct.C01_repeat_diverges.
Goal True. idtac "BEGIN C01_until_never_done". Abort.
Print Assumptions Xeh.Props.C01_struct.C01_until_never_done.
Goal True. idtac "BEGIN C01_until_no_result". Abort.
Print Assumptions Xeh.Props.C01_struct.C01_until_no_result.
Goal True. idtac "BEGIN C01_until_diverges". Abort.
Print Assumptions Xeh.Props.C01_struct.C01_until_diverges.
Goal True. idtac "BEGIN C01_while_never_done". Abort.
Print Assumptions Xeh.Props.C01_struct.C01_while_never_done.
Goal True. idtac "BEGIN C01_while_no_result". Abort.
Print Assumptions Xeh.Props.C01_struct.C01_while_no_result.
Goal True. idtac "BEGIN C01_while_diverges". Abort.
Print Assumptions Xeh.Props.C01_struct.C01_while_diverges.
Goal True. idtac "BEGIN C01_block_stops_at_no_result". Abort.
Print Assumptions Xeh.Props.C01_struct.C01_block_stops_at_no_result.
Goal True. idtac "BEGIN C01_break_skips_rest". Abort.
Print Assumptions Xeh.Props.C01_struct.C01_break_skips_rest.
Goal True. idtac "BEGIN C01_break_through_if". Abort.
Print Assumptions Xeh.Props.C01_struct.C01_break_through_if.
Goal True. idtac "BEGIN C01_break_through_if_else". Abort.
Print Assumptions Xeh.Props.C01_struct.C01_break_through_if_else.
Goal True. idtac "BEGIN C01_case_arm_selected". Abort.
Print Assumptions Xeh.Props.C01_struct.C01_case_arm_selected.
Goal True. idtac "BEGIN C01_case_arm_skipped". Abort.
Print Assumptions Xeh.Props.C01_struct.C01_case_arm_skipped.
Goal True. idtac "BEGIN C01_case_default". Abort.
Print Assumptions Xeh.Props.C01_struct.C01_case_default.
Goal True. idtac "BEGIN C01_break_in_case_selector". Abort.
Print Assumptions Xeh.Props.C01_struct.C01_break_in_case_selector.
Goal True. idtac "BEGIN C01_repeat_catches_break". Abort.
Print Assumptions Xeh.Props.C01_struct.C01_repeat_catches_break.
Goal True. idtac "BEGIN C01_while_catches_break_in_body". Abort.
Print Assumptions Xeh.Props.C01_struct.C01_while_catches_break_in_body.
Goal True. idtac "BEGIN C01_while_catches_break_in_condition". Abort.
Print Assumptions Xeh.Props.C01_struct.C01_while_catches_break_in_condition.
Goal True. idtac "BEGIN C01_until_passes_break". Abort.
Print Assumptions Xeh.Props.C01_struct.C01_until_passes_break.
Goal True. idtac "BEGIN C01_do_catches_break". Abort.
Print Assumptions Xeh.Props.C01_struct.C01_do_catches_break.
Goal True. idtac "BEGIN C01_do_catches_break_done". Abort.
Print Assumptions Xeh.Props.C01_struct.C01_do_catches_break_done.
Goal True. idtac "BEGIN C01_repeat_next_trip". Abort.
Print Assumptions Xeh.Props.C01_struct.C01_repeat_next_trip.
Goal True. idtac "BEGIN C01_while_next_trip". Abort.
Print Assumptions Xeh.Props.C01_struct.C01_while_next_trip.
Goal True. idtac "BEGIN C01_while_exit". Abort.
Print Assumptions Xeh.Props.C01_struct.C01_while_exit.
Goal True. idtac "BEGIN C01_until_exit". Abort.
Print Assumptions Xeh.Props.C01_struct.C01_until_exit.
Goal True. idtac "BEGIN C01_until_next_trip". Abort.
Print Assumptions Xeh.Props.C01_struct.C01_until_next_trip.
Goal True. idtac "BEGIN C01_block_app_exact". Abort.
Print Assumptions Xeh.Props.C01_struct.C01_block_app_exact.
Goal True. idtac "BEGIN C01_block_app_short". Abort.
Print Assumptions Xeh.Props.C01_struct.C01_block_app_short.
Goal True. idtac "BEGIN C01_block_app_done". Abort.
Print Assumptions Xeh.Props.C01_struct.C01_block_app_done.
Goal True. idtac "BEGIN C01_block_app_stops". Abort.
Print Assumptions Xeh.Props.C01_struct.C01_block_app_stops.
Goal True. idtac "BEGIN C01_block_first_error". Abort.
Print Assumptions Xeh.Props.C01_struct.C01_block_first_error.
Goal True. idtac "BEGIN C01_block_fail_inv". Abort.
Print Assumptions Xeh.Props.C01_struct.C01_block_fail_inv.
Goal True. idtac "BEGIN C01_block_stop_inv". Abort.
Print Assumptions Xeh.Props.C01_struct.C01_block_stop_inv.
Goal True. idtac "BEGIN C01_block_done_each". Abort.
Print Assumptions Xeh.Props.C01_struct.C01_block_done_each.
Goal True. idtac "BEGIN C01_rpos_is_last". Abort.
Print Assumptions Xeh.Props.C01_struct.C01_rpos_is_last.
Goal True. idtac "BEGIN C01_rpos_none". Abort.
Print Assumptions Xeh.Props.C01_struct.C01_rpos_none.
Goal True. idtac "BEGIN C01_rpos_declared_last". Abort.
Print Assumptions Xeh.Props.C01_struct.C01_rpos_declared_last.
Goal True. idtac "BEGIN C01_lookup_newest". Abort.
Print Assumptions Xeh.Props.C01_struct.C01_lookup_newest.
Goal True. idtac "BEGIN C01_lookup_other". Abort.
Print Assumptions Xeh.Props.C01_struct.C01_lookup_other.
Goal True. idtac "BEGIN C01_parse_local_first". Abort.
Print Assumptions Xeh.Props.C01_struct.C01_parse_local_first.
Goal True. idtac "BEGIN C01_parse_global". Abort.
Print Assumptions Xeh.Props.C01_struct.C01_parse_global.
Goal True. idtac "BEGIN C01_parse_break_outside_loop". Abort.
Print Assumptions Xeh.Props.C01_struct.C01_parse_break_outside_loop.
Goal True. idtac "BEGIN C01_parse_break_inside_loop". Abort.
Print Assumptions Xeh.Props.C01_struct.C01_parse_break_inside_loop.
Goal True. idtac "BEGIN C01_parse_lex_error". Abort.
Print Assumptions Xeh.Props.C01_struct.C01_parse_lex_error.
Goal True. idtac "BEGIN C01_parse_invariant". Abort.
Print Assumptions Xeh.Props.C01_struct.C01_parse_invariant.
Goal True. idtac "BEGIN C01_parse_keeps_compiled". Abort.
Print Assumptions Xeh.Props.C01_struct.C01_parse_keeps_compiled.
Goal True. idtac "BEGIN C01_parse_funs_stable". Abort.
Print Assumptions Xeh.Props.C01_struct.C01_parse_funs_stable.
Goal True. idtac "BEGIN C01_parse_depth0_no_break". Abort.
Print Assumptions Xeh.Props.C01_struct.C01_parse_depth0_no_break.
Goal True. idtac "BEGIN C01_parse_counters_restored". Abort.
Print Assumptions Xeh.Props.C01_struct.C01_parse_counters_restored.
Goal True. idtac "BEGIN C01_redefinition". Abort.
Print Assumptions Xeh.Props.C01_struct.C01_redefinition.
Goal True. idtac "BEGIN C01_recursion_binding". Abort.
Print Assumptions Xeh.Props.C01_struct.C01_recursion_binding.
Goal True. idtac "BEGIN C01_parse_source_no_stray_break". Abort.
Print Assumptions Xeh.Props.C01_struct.C01_parse_source_no_stray_break.
Goal True. idtac "BEGIN C01_seval_source_runs_parse". Abort.
Print Assumptions Xeh.Props.C01_struct.C01_seval_source_runs_parse.
Goal True. idtac "BEGIN C01_seval_source_never_broke". Abort.
Print Assumptions Xeh.Props.C01_struct.C01_seval_source_never_broke.
Goal True. idtac "BEGIN C01_seval_source_hygiene". Abort.
Print Assumptions Xeh.Props.C01_struct.C01_seval_source_hygiene.
Goal True. idtac "BEGIN -". Abort.
