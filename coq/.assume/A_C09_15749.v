From Xeh Require Props.C09.
From Xeh Require Props.C09_ieee.
Goal True. idtac "BEGIN C09_frame". Abort.
Print Assumptions Xeh.Props.C09.C09_frame.
Goal True. idtac "BEGIN C09_wrap128". Abort.
Print Assumptions Xeh.Props.C09.C09_wrap128.
Goal True. idtac "BEGIN C09_add_int". Abort.
Print Assumptions Xeh.Props.C09.C09_add_int.
Goal True. idtac "BEGIN C09_sub_int". Abort.
Print Assumptions Xeh.Props.C09.C09_sub_int.
Goal True. idtac "BEGIN C09_mul_int". Abort.
Print Assumptions Xeh.Props.C09.C09_mul_int.
Goal True. idtac "BEGIN C09_div_int". Abort.
Print Assumptions Xeh.Props.C09.C09_div_int.
Goal True. idtac "BEGIN C09_rem_int". Abort.
Print Assumptions Xeh.Props.C09.C09_rem_int.
Goal True. idtac "BEGIN C09_rem_int_wrapped". Abort.
Print Assumptions Xeh.Props.C09.C09_rem_int_wrapped.
Goal True. idtac "BEGIN C09_rem_wrap_id". Abort.
Print Assumptions Xeh.Props.C09.C09_rem_wrap_id.
Goal True. idtac "BEGIN C09_quot_rem_laws". Abort.
Print Assumptions Xeh.Props.C09.C09_quot_rem_laws.
Goal True. idtac "BEGIN C09_overflow_cases". Abort.
Print Assumptions Xeh.Props.C09.C09_overflow_cases.
Goal True. idtac "BEGIN C09_neg_int". Abort.
Print Assumptions Xeh.Props.C09.C09_neg_int.
Goal True. idtac "BEGIN C09_abs_int". Abort.
Print Assumptions Xeh.Props.C09.C09_abs_int.
Goal True. idtac "BEGIN C09_min_int". Abort.
Print Assumptions Xeh.Props.C09.C09_min_int.
Goal True. idtac "BEGIN C09_max_int". Abort.
Print Assumptions Xeh.Props.C09.C09_max_int.
Goal True. idtac "BEGIN C09_cmp_int". Abort.
Print Assumptions Xeh.Props.C09.C09_cmp_int.
Goal True. idtac "BEGIN C09_cmp_flags". Abort.
Print Assumptions Xeh.Props.C09.C09_cmp_flags.
Goal True. idtac "BEGIN C09_bitwise_int". Abort.
Print Assumptions Xeh.Props.C09.C09_bitwise_int.
Goal True. idtac "BEGIN C09_bnot_int". Abort.
Print Assumptions Xeh.Props.C09.C09_bnot_int.
Goal True. idtac "BEGIN C09_bitwise_twos_complement". Abort.
Print Assumptions Xeh.Props.C09.C09_bitwise_twos_complement.
Goal True. idtac "BEGIN C09_bsl_int". Abort.
Print Assumptions Xeh.Props.C09.C09_bsl_int.
Goal True. idtac "BEGIN C09_bsr_int". Abort.
Print Assumptions Xeh.Props.C09.C09_bsr_int.
Goal True. idtac "BEGIN C09_popcnt_int". Abort.
Print Assumptions Xeh.Props.C09.C09_popcnt_int.
Goal True. idtac "BEGIN C09_popcount_spec". Abort.
Print Assumptions Xeh.Props.C09.C09_popcount_spec.
Goal True. idtac "BEGIN C09_sign_tests_int". Abort.
Print Assumptions Xeh.Props.C09.C09_sign_tests_int.
Goal True. idtac "BEGIN C09_results_in_range". Abort.
Print Assumptions Xeh.Props.C09.C09_results_in_range.
Goal True. idtac "BEGIN C09_add_real". Abort.
Print Assumptions Xeh.Props.C09.C09_add_real.
Goal True. idtac "BEGIN C09_sub_real". Abort.
Print Assumptions Xeh.Props.C09.C09_sub_real.
Goal True. idtac "BEGIN C09_mul_real". Abort.
Print Assumptions Xeh.Props.C09.C09_mul_real.
Goal True. idtac "BEGIN C09_div_real". Abort.
Print Assumptions Xeh.Props.C09.C09_div_real.
Goal True. idtac "BEGIN C09_rem_real". Abort.
Print Assumptions Xeh.Props.C09.C09_rem_real.
Goal True. idtac "BEGIN C09_min_real". Abort.
Print Assumptions Xeh.Props.C09.C09_min_real.
Goal True. idtac "BEGIN C09_max_real". Abort.
Print Assumptions Xeh.Props.C09.C09_max_real.
Goal True. idtac "BEGIN C09_neg_real". Abort.
Print Assumptions Xeh.Props.C09.C09_neg_real.
Goal True. idtac "BEGIN C09_abs_real". Abort.
Print Assumptions Xeh.Props.C09.C09_abs_real.
Goal True. idtac "BEGIN C09_sign_bit". Abort.
Print Assumptions Xeh.Props.C09.C09_sign_bit.
Goal True. idtac "BEGIN C09_cmp_real". Abort.
Print Assumptions Xeh.Props.C09.C09_cmp_real.
Goal True. idtac "BEGIN C09_sign_tests_real". Abort.
Print Assumptions Xeh.Props.C09.C09_sign_tests_real.
Goal True. idtac "BEGIN C09_into_real_int". Abort.
Print Assumptions Xeh.Props.C09.C09_into_real_int.
Goal True. idtac "BEGIN C09_into_real_real". Abort.
Print Assumptions Xeh.Props.C09.C09_into_real_real.
Goal True. idtac "BEGIN C09_into_int_real". Abort.
Print Assumptions Xeh.Props.C09.C09_into_int_real.
Goal True. idtac "BEGIN C09_into_int_int". Abort.
Print Assumptions Xeh.Props.C09.C09_into_int_int.
Goal True. idtac "BEGIN C09_round_real". Abort.
Print Assumptions Xeh.Props.C09.C09_round_real.
Goal True. idtac "BEGIN C09_f64_int_round_trip". Abort.
Print Assumptions Xeh.Props.C09.C09_f64_int_round_trip.
Goal True. idtac "BEGIN C09_f64_of_int_monotone". Abort.
Print Assumptions Xeh.Props.C09.C09_f64_of_int_monotone.
Goal True. idtac "BEGIN C09_f64_round_integral". Abort.
Print Assumptions Xeh.Props.C09.C09_f64_round_integral.
Goal True. idtac "BEGIN C09_f32_f64_round_trip". Abort.
Print Assumptions Xeh.Props.C09.C09_f32_f64_round_trip.
Goal True. idtac "BEGIN C09_f32_to_f64_injective". Abort.
Print Assumptions Xeh.Props.C09.C09_f32_to_f64_injective.
Goal True. idtac "BEGIN C09_mixed_type_error". Abort.
Print Assumptions Xeh.Props.C09.C09_mixed_type_error.
Goal True. idtac "BEGIN C09_bitwise_type_error". Abort.
Print Assumptions Xeh.Props.C09.C09_bitwise_type_error.
Goal True. idtac "BEGIN C09_type_error_payload". Abort.
Print Assumptions Xeh.Props.C09.C09_type_error_payload.
Goal True. idtac "BEGIN C09_ieee_bits_round_trip". Abort.
Print Assumptions Xeh.Props.C09_ieee.C09_ieee_bits_round_trip.
Goal True. idtac "BEGIN C09_ieee_b64_round_trip". Abort.
Print Assumptions Xeh.Props.C09_ieee.C09_ieee_b64_round_trip.
Goal True. idtac "BEGIN C09_ieee_pat". Abort.
Print Assumptions Xeh.Props.C09_ieee.C09_ieee_pat.
Goal True. idtac "BEGIN C09_ieee_nan_payload". Abort.
Print Assumptions Xeh.Props.C09_ieee.C09_ieee_nan_payload.
Goal True. idtac "BEGIN C09_ieee_fields". Abort.
Print Assumptions Xeh.Props.C09_ieee.C09_ieee_fields.
Goal True. idtac "BEGIN C09_ieee_zero". Abort.
Print Assumptions Xeh.Props.C09_ieee.C09_ieee_zero.
Goal True. idtac "BEGIN C09_ieee_add". Abort.
Print Assumptions Xeh.Props.C09_ieee.C09_ieee_add.
Goal True. idtac "BEGIN C09_ieee_sub". Abort.
Print Assumptions Xeh.Props.C09_ieee.C09_ieee_sub.
Goal True. idtac "BEGIN C09_ieee_mul". Abort.
Print Assumptions Xeh.Props.C09_ieee.C09_ieee_mul.
Goal True. idtac "BEGIN C09_ieee_div". Abort.
Print Assumptions Xeh.Props.C09_ieee.C09_ieee_div.
Goal True. idtac "BEGIN C09_ieee_nan_propagates". Abort.
Print Assumptions Xeh.Props.C09_ieee.C09_ieee_nan_propagates.
Goal True. idtac "BEGIN C09_ieee_invalid_operations". Abort.
Print Assumptions Xeh.Props.C09_ieee.C09_ieee_invalid_operations.
Goal True. idtac "BEGIN C09_ieee_infinite_operand". Abort.
Print Assumptions Xeh.Props.C09_ieee.C09_ieee_infinite_operand.
Goal True. idtac "BEGIN C09_ieee_two_infinities". Abort.
Print Assumptions Xeh.Props.C09_ieee.C09_ieee_two_infinities.
Goal True. idtac "BEGIN C09_ieee_div_by_zero". Abort.
Print Assumptions Xeh.Props.C09_ieee.C09_ieee_div_by_zero.
Goal True. idtac "BEGIN C09_ieee_div_word". Abort.
Print Assumptions Xeh.Props.C09_ieee.C09_ieee_div_word.
Goal True. idtac "BEGIN C09_ieee_words". Abort.
Print Assumptions Xeh.Props.C09_ieee.C09_ieee_words.
Goal True. idtac "BEGIN C09_ieee_of_int_flocq". Abort.
Print Assumptions Xeh.Props.C09_ieee.C09_ieee_of_int_flocq.
Goal True. idtac "BEGIN C09_ieee_of_int_value". Abort.
Print Assumptions Xeh.Props.C09_ieee.C09_ieee_of_int_value.
Goal True. idtac "BEGIN C09_ieee_of_int_exact". Abort.
Print Assumptions Xeh.Props.C09_ieee.C09_ieee_of_int_exact.
Goal True. idtac "BEGIN C09_ieee_to_int". Abort.
Print Assumptions Xeh.Props.C09_ieee.C09_ieee_to_int.
Goal True. idtac "BEGIN C09_ieee_to_int_flocq". Abort.
Print Assumptions Xeh.Props.C09_ieee.C09_ieee_to_int_flocq.
Goal True. idtac "BEGIN C09_ieee_round". Abort.
Print Assumptions Xeh.Props.C09_ieee.C09_ieee_round.
Goal True. idtac "BEGIN C09_ieee_round_nonfinite". Abort.
Print Assumptions Xeh.Props.C09_ieee.C09_ieee_round_nonfinite.
Goal True. idtac "BEGIN C09_ieee_round_flocq". Abort.
Print Assumptions Xeh.Props.C09_ieee.C09_ieee_round_flocq.
Goal True. idtac "BEGIN C09_ieee_compare". Abort.
Print Assumptions Xeh.Props.C09_ieee.C09_ieee_compare.
Goal True. idtac "BEGIN C09_ieee_compare_finite". Abort.
Print Assumptions Xeh.Props.C09_ieee.C09_ieee_compare_finite.
Goal True. idtac "BEGIN C09_ieee_cmp_word". Abort.
Print Assumptions Xeh.Props.C09_ieee.C09_ieee_cmp_word.
Goal True. idtac "BEGIN C09_ieee_zeros_and_infinities". Abort.
Print Assumptions Xeh.Props.C09_ieee.C09_ieee_zeros_and_infinities.
Goal True. idtac "BEGIN C09_ieee_compare_unordered". Abort.
Print Assumptions Xeh.Props.C09_ieee.C09_ieee_compare_unordered.
Goal True. idtac "BEGIN C09_ieee_sign_tests". Abort.
Print Assumptions Xeh.Props.C09_ieee.C09_ieee_sign_tests.
Goal True. idtac "BEGIN C09_ieee_minmax_nan". Abort.
Print Assumptions Xeh.Props.C09_ieee.C09_ieee_minmax_nan.
Goal True. idtac "BEGIN C09_ieee_minmax". Abort.
Print Assumptions Xeh.Props.C09_ieee.C09_ieee_minmax.
Goal True. idtac "BEGIN C09_ieee_rem". Abort.
Print Assumptions Xeh.Props.C09_ieee.C09_ieee_rem.
Goal True. idtac "BEGIN C09_ieee_rem_special". Abort.
Print Assumptions Xeh.Props.C09_ieee.C09_ieee_rem_special.
Goal True. idtac "BEGIN C09_ieee_of_scaled". Abort.
Print Assumptions Xeh.Props.C09_ieee.C09_ieee_of_scaled.
Goal True. idtac "BEGIN -". Abort.
