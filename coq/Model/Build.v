(* Build.v: mirror of the single-pass backpatching compiler of /repo/src/state.rs:
   token reading, build1, the immediate words, contexts (eval / compile / meta),
   and the source-submission entry points eval / compile with the unwinding of a
   failed build (D17 repair). *)
From Xeh Require Import Model.Prelude Model.Bits Model.Codec Model.Cell Model.Lexer Model.Fmt Model.Vm Model.Words.
Local Notation length := List.length.
Local Open Scope string_scope.

Section Build.
  Variable fo : fops.
  (* str::parse::<f64> of a cleaned real literal: bit pattern, or None if rejected *)
  Variable parse_real : string -> option Z.

  Definition nf : natives := native_fn fo.

  Definition code_origin (s : state) : nat := length (code s).

  (* ---------- tokens ---------- *)
  Inductive btok := BEnd | BWord (w : string) | BLit (c : cell).

  Definition perr_kind (e : perr) : ekind := EParse.

  (* next_token: read from the innermost lexer; pos_ its end pop it and go on with the
     one below.  last_token is recorded on every fetch. *)
  Fixpoint next_token (fuel : nat) : M btok := fun s =>
    match fuel with
    | O => RUnsup
    | S f =>
      match input s with
      | [] => ROk BEnd s
      | il :: rest =>
        let l := in_lex il in
        let '(t, l') := lex_next_nonws (S (String.length (lrest l))) l in
        let s1 := set_last_tok (set_input s (mkinlex (in_src il) l' :: rest))
                               (Some (in_src il, lstart l', lpos l')) in
        match t with
        | TEnd => next_token f (set_input s1 rest)
        | TWord w => ROk (BWord w) s1
        | TLit c => ROk (BLit c) s1
        | TReal txt =>
          match parse_real txt with
          | Some r => ROk (BLit (CReal r)) s1
          | None => RErr EParse None s1
          end
        | TErr _ _ _ => RErr EParse None s1
        | TWs | TComment => RUnsup   (* next_nonws never returns these *)
        end
      end
    end.
  Definition tok_fuel (s : state) : nat := S (length (input s)).
  Definition get_token : M btok := fun s => next_token (tok_fuel s) s.

  Definition next_name : M string := fun s =>
    let prev := last_tok s in
    match get_token s with
    | ROk (BWord w) s' => ROk w s'
    | ROk _ s' => RErr EExpectName None (match prev with Some _ => set_last_tok s' prev | None => s' end)
    | RErr k p s' => RErr k p s'
    | RPanic => RPanic
    | RUnsup => RUnsup
    end.

  (* ---------- code emission ---------- *)
  Definition code_emit (op : opcode) : M unit := fun s =>
    let pos_ := length (code s) in
    let len := length (dbg s) in
    let loc := match last_tok s with Some t => t | None => (0, 0, 0)%nat end in
    if (pos_ <? len)%nat then ROk tt (set_code (set_dbg s (list_set (dbg s) pos_ loc)) (code s ++ [op]))
    else if (pos_ =? len)%nat then ROk tt (set_code (set_dbg s (dbg s ++ [loc])) (code s ++ [op]))
    else RPanic.

  Definition code_emit_value (c : cell) : M unit := code_emit (load_value_opcode c).
  Definition emit_native (w : string) : M unit := code_emit (ONative w).

  (* RelativeJump::from_to after the D1 repair: the plain distance *)
  Definition jump_offset (origin dest : nat) : Z := (Z.of_nat dest - Z.of_nat origin)%Z.

  Definition backpatch (pos_ : nat) (op : opcode) : M unit := fun s =>
    if (pos_ <? length (code s))%nat then ROk tt (set_code s (list_set (code s) pos_ op)) else RPanic.

  Definition backpatch_jump (pos_ : nat) (offs : Z) : M unit := fun s =>
    match nth_error (code s) pos_ with
    | None => RErr EInternal None s
    | Some (OJump _) => backpatch pos_ (OJump offs) s
    | Some (OJumpIf _) => backpatch pos_ (OJumpIf offs) s
    | Some (OJumpIfNot _) => backpatch pos_ (OJumpIfNot offs) s
    | Some (OCaseOf _) => backpatch pos_ (OCaseOf offs) s
    | Some _ => RPanic
    end.

  (* ---------- flow stack ---------- *)
  Definition push_flow (f : flow) : M unit := modify (fun s => set_flows s (f :: flows s)).
  Definition pop_flow : M (option flow) := fun s =>
    match flows s with
    | f :: r => if (fs_len (cx s) <? length (flows s))%nat then ROk (Some f) (set_flows s r) else ROk None s
    | [] => ROk None s
    end.
  Definition pending (s : state) : list flow := firstn (length (flows s) - fs_len (cx s)) (flows s).
  Definition has_pending_flow (s : state) : bool := (fs_len (cx s) <? length (flows s))%nat.

  Definition flow_err (f : option flow) : ekind := EFlow.

  (* take_first_cond_flow: the nearest conditional flow, skipping Break entries *)
  Fixpoint take_cond (l : list flow) : option (flow * list flow) :=
    match l with
    | [] => None
    | f :: r =>
      match f with
      | FIf _ | FElse _ | FCase | FCaseOf _ | FCaseEndOf _ => Some (f, r)
      | FBreak _ => match take_cond r with
                    | Some (g, r') => Some (g, f :: r')
                    | None => None
                    end
      | _ => None
      end
    end.
  Definition take_first_cond_flow : M (option flow) := fun s =>
    let act := pending s in
    let rest := skipn (length act) (flows s) in
    match take_cond act with
    | Some (f, act') => ROk (Some f) (set_flows s (act' ++ rest))
    | None => ROk None s
    end.

  Fixpoint find_fun (l : list flow) : option (nat * nat * list string) :=
    match l with
    | [] => None
    | FFun d st ls :: _ => Some (d, st, ls)
    | _ :: r => find_fun r
    end.
  Definition top_function_flow (s : state) : option (nat * nat * list string) := find_fun (pending s).

  (* replace the locals of the nearest function flow *)
  Fixpoint set_fun_locals (l : list flow) (ls : list string) : list flow :=
    match l with
    | [] => []
    | FFun d st _ :: r => FFun d st ls :: r
    | f :: r => f :: set_fun_locals r ls
    end.

  Fixpoint rposition (l : list string) (name : string) (i : nat) (acc : option nat) : option nat :=
    match l with
    | [] => acc
    | x :: r => rposition r name (S i) (if String.eqb x name then Some i else acc)
    end.

  (* ---------- dictionary ---------- *)
  Definition dict_insert (name : string) (e : entry) : M nat := fun s =>
    ROk (length (dict s)) (set_dict s (dict s ++ [mkdent name e])).
  Fixpoint dict_rpos (d : list dentry) (name : string) (i : nat) (acc : option nat) : option nat :=
    match d with
    | [] => acc
    | e :: r => dict_rpos r name (S i) (if String.eqb (dname e) name then Some i else acc)
    end.
  Definition dict_pos (s : state) (name : string) : option nat := dict_rpos (dict s) name 0 None.

  (* ---------- contexts ---------- *)
  Definition context_open (m : mode) : M unit := fun s =>
    let c := cx s in
    let dsl := if mode_eqb (cmode c) m then ds_len c else length (ds s) in
    let tmp := mkctx dsl (length (code s)) (length (rs s)) (length (flows s)) (length (loops s))
                     (length (special s)) (length (dict s)) (code_origin s) m in
    ROk tt (set_nested (set_cx s tmp) (c :: nested s)).

  Definition set_ctx_ip (c : ctx) (i : nat) : ctx :=
    mkctx (ds_len c) (cs_len c) (rs_len c) (fs_len c) (ls_len c) (ss_ptr c) (di_len c) i (cmode c).

  (* remove the non-constant dictionary entries from index [i] on (swap_remove order) *)
  Fixpoint swap_remove_last (l : list dentry) : option (dentry * list dentry) :=
    match l with
    | [] => None
    | [x] => Some (x, [])
    | x :: r => match swap_remove_last r with
                | Some (lst, r') => Some (lst, x :: r')
                | None => None
                end
    end.
  Fixpoint purge_dict (fuel : nat) (d : list dentry) (i : nat) : list dentry :=
    match fuel with
    | O => d
    | S f =>
      match nth_error d i with
      | None => d
      | Some e =>
        match dent e with
        | DConst _ => purge_dict f d (S i)
        | _ =>
          (* swap_remove(i): the last element takes the place of element i *)
          match swap_remove_last d with
          | Some (lst, d') => if (i =? length d')%nat then purge_dict f d' i
                              else purge_dict f (list_set d' i lst) i
          | None => d
          end
        end
      end
    end.

  Section WithRun.
    (* running the machine from inside the builder, with fuel *)
    Variable run_fuel : nat.

    Definition run_m : M unit := fun s =>
      match run nf run_fuel s with
      | Some r => r
      | None => RUnsup
      end.

    Fixpoint emit_results (fuel : nat) : M unit := fun s =>
      match fuel with
      | O => ROk tt s
      | S f =>
        if (ds_len (cx s) <? length (ds s))%nat then
          match pop_data s with
          | ROk v s1 => match code_emit_value v s1 with
                        | ROk _ s2 => emit_results f s2
                        | e => e
                        end
          | RErr k p s1 => RErr k p s1
          | RPanic => RPanic
          | RUnsup => RUnsup
          end
        else ROk tt s
      end.

    (* context_close; a failing run leaves the context like a finished one (D17 repair) *)
    Definition context_close : M unit := fun s =>
      match nested s with
      | [] => RErr EContext None s
      | prev :: rest =>
        let s0 := set_nested s rest in
        match cmode (cx s0) with
        | MEval =>
          let fin (s1 : state) :=
              let prev' := if mode_eqb (cmode prev) MEval then set_ctx_ip prev (ip s1) else prev in
              set_cx s1 prev' in
          match run_m s0 with
          | ROk _ s1 => ROk tt (fin s1)
          | RErr k p s1 => RErr k p (fin s1)
          | RPanic => RPanic
          | RUnsup => RUnsup
          end
        | MMeta =>
          match run_m s0 with
          | ROk _ s1 =>
            let c := cx s1 in
            let s2 := set_dbg (set_code s1 (firstn (cs_len c) (code s1))) (firstn (cs_len c) (dbg s1)) in
            let s3 := set_dict s2 (purge_dict (S (length (dict s2))) (dict s2) (di_len c)) in
            let upper := firstn (length (flows s3) - fs_len prev) (flows s3) in
            let is_building_fun := match upper with FFun _ _ _ :: _ => true | _ => false end in
            let after :=
                if negb (mode_eqb (cmode prev) MMeta) || is_building_fun
                then emit_results (S (length (ds s3))) s3
                else ROk tt s3 in
            match after with
            | ROk _ s4 => ROk tt (set_cx s4 prev)
            | e => e
            end
          (* the pending code of the block failed: still inside the block, the popped context is put back
             (repair of D37) so that the failed source is unwound to the right marks *)
          | RErr k p s1 => RErr k p (set_nested s1 (prev :: nested s1))
          | e => e
          end
        | MCompile => ROk tt (set_cx s0 prev)
        end
      end.

    (* ---------- immediate words ---------- *)
    Definition i_if : M unit :=
      let* s := get in push_flow (FIf (code_origin s)) ;; code_emit (OJumpIfNot 0).

    Definition i_else : M unit :=
      let* f := take_first_cond_flow in
      match f with
      | Some (FIf if_org) =>
        let* s := get in
        push_flow (FElse (code_origin s)) ;;
        code_emit (OJump 0) ;;
        let* s' := get in
        backpatch_jump if_org (jump_offset if_org (code_origin s'))
      | _ => fail EFlow None
      end.

    Definition i_then : M unit :=
      let* f := take_first_cond_flow in
      match f with
      | Some (FIf org) | Some (FElse org) =>
        let* s := get in backpatch_jump org (jump_offset org (code_origin s))
      | _ => fail EFlow None
      end.

    Definition i_case : M unit := push_flow FCase.

    Fixpoint endcase_loop (fuel : nat) (endcase_org : nat) : M unit :=
      match fuel with
      | O => unsup
      | S f =>
        let* fl := take_first_cond_flow in
        match fl with
        | Some (FCaseEndOf endof_org) =>
          backpatch_jump endof_org (jump_offset endof_org endcase_org) ;; endcase_loop f endcase_org
        | Some FCase => ret tt
        | _ => fail EFlow None
        end
      end.
    Definition i_endcase : M unit :=
      let* s := get in endcase_loop (S (length (flows s))) (code_origin s).

    Definition i_of : M unit :=
      let* s := get in push_flow (FCaseOf (code_origin s)) ;; code_emit (OCaseOf 0).

    Definition i_endof : M unit :=
      let* f := take_first_cond_flow in
      match f with
      | Some (FCaseOf of_org) =>
        let* s := get in
        let endof_org := code_origin s in
        code_emit (OJump 0) ;;
        let* s' := get in
        backpatch_jump of_org (jump_offset of_org (code_origin s')) ;;
        push_flow (FCaseEndOf endof_org)
      | _ => fail EFlow None
      end.

    Definition i_begin : M unit := let* s := get in push_flow (FBegin (code_origin s)).

    Definition i_until : M unit :=
      let* f := pop_flow in
      match f with
      | Some (FBegin begin_org) =>
        let* s := get in code_emit (OJumpIfNot (jump_offset (code_origin s) begin_org))
      | _ => fail EFlow None
      end.

    Definition i_while : M unit :=
      let* s := get in
      code_emit (OJumpIfNot 0) ;; push_flow (FWhile (code_origin s)).

    Fixpoint repeat_loop (fuel : nat) : M unit :=
      match fuel with
      | O => unsup
      | S f =>
        let* fl := pop_flow in
        match fl with
        | Some (FBreak org) =>
          let* s := get in
          backpatch_jump org (jump_offset org (S (code_origin s))) ;; repeat_loop f
        | Some (FBegin begin_org) =>
          let* s := get in code_emit (OJump (jump_offset (code_origin s) begin_org))
        | Some (FWhile cond_org) =>
          let* fl2 := pop_flow in
          match fl2 with
          | Some (FBegin begin_org) =>
            let* s := get in
            backpatch_jump cond_org (jump_offset cond_org (S (code_origin s))) ;;
            code_emit (OJump (jump_offset (code_origin s) begin_org))
          | _ => fail EFlow None
          end
        | _ => fail EFlow None
        end
      end.
    Definition i_repeat : M unit := let* s := get in repeat_loop (S (length (flows s))).

    Definition i_break : M unit :=
      let* s := get in
      let has_loops := existsb (fun f => match f with FBegin _ | FWhile _ | FDo _ _ => true | _ => false end)
                               (pending s) in
      if negb has_loops then fail EFlow None
      else code_emit (OJump 0) ;; push_flow (FBreak (code_origin s)).

    Definition i_open (f : flow) (w : string) : M unit := push_flow f ;; emit_native w.
    Definition i_close (is_f : flow -> bool) (w : string) : M unit :=
      let* fl := pop_flow in
      match fl with
      | Some f => if is_f f then emit_native w else fail EFlow None
      | None => fail EFlow None
      end.

    Definition i_def_begin_named (name : string) : M unit :=
      let* s := get in
      let start := code_origin s in
      code_emit (OJump 0) ;;
      let* s' := get in
      let* idx := dict_insert name (DFun false (FInterp (code_origin s')) None) in
      push_flow (FFun idx start []).
    Definition i_def_begin : M unit := let* name := next_name in i_def_begin_named name.

    Definition set_dict_len (d : list dentry) (i : nat) (n : nat) : option (list dentry) :=
      match nth_error d i with
      | Some e => match dent e with
                  | DFun imm f _ => Some (list_set d i (mkdent (dname e) (DFun imm f (Some n))))
                  | _ => None
                  end
      | None => None
      end.

    Definition i_def_end : M unit :=
      let* fl := pop_flow in
      match fl with
      | Some (FFun dict_idx start _) =>
        code_emit ORet ;;
        let* s := get in
        let offs := jump_offset start (code_origin s) in
        let fun_len := (code_origin s - start - 1)%nat in
        match nth_error (dict s) dict_idx with
        | None => fail EInternal None
        | Some _ =>
          match set_dict_len (dict s) dict_idx fun_len with
          | Some d' => put (set_dict s d') ;; backpatch_jump start offs
          | None => panic
          end
        end
      | None => fail EFlow None
      | Some _ => fail EFlow None
      end.

    Definition i_late : M unit :=
      let* s := get in
      let jump_over_org := code_origin s in
      code_emit (OJump 0) ;;
      let* name := next_name in
      let* s1 := get in
      let word_start := code_origin s1 in
      code_emit (OResolve name) ;;
      code_emit ORet ;;
      let* s2 := get in
      let word_end := code_origin s2 in
      backpatch_jump jump_over_org (jump_offset jump_over_org word_end) ;;
      let* _ := dict_insert name (DFun false (FInterp word_start) (Some (word_end - word_start)%nat)) in
      ret tt.

    Definition i_immediate : M unit :=
      let* s := get in
      match top_function_flow s with
      | None => fail EFlow None
      | Some (idx, _, _) =>
        match nth_error (dict s) idx with
        | Some e => match dent e with
                    | DFun _ f len => put (set_dict s (list_set (dict s) idx (mkdent (dname e) (DFun true f len))))
                    | _ => fail EFlow None
                    end
        | None => fail EFlow None
        end
      end.

    Definition build_local_variable (name : string) : M unit :=
      let* s := get in
      match top_function_flow s with
      | None => fail EFlow None
      | Some (_, _, ls) =>
        let idx := length ls in
        let act := pending s in
        let rest := skipn (length act) (flows s) in
        put (set_flows s (set_fun_locals act (ls ++ [name]) ++ rest)) ;;
        code_emit (OInitLocal idx)
      end.
    Definition i_local : M unit := let* name := next_name in build_local_variable name.

    Definition build_global_variable (name : string) : M unit :=
      let* s := get in
      match flows s with
      | [] =>
        let* a := alloc_heap CNil in
        let* _ := dict_insert name (DVar a) in
        code_emit (OStore a)
      | _ => fail EFlow None
      end.
    Definition i_var : M unit := let* name := next_name in build_global_variable name.

    Definition i_setvar : M unit :=
      let* name := next_name in
      let* s := get in
      match dict_entry s name with
      | None => fail EUnknown None
      | Some (DVar a) => code_emit (OStore a)
      | Some _ => fail EReadonly None
      end.

    Definition i_nested_begin : M unit := context_open MMeta.
    Definition i_nested_end : M unit :=
      let* s := get in
      if negb (mode_eqb (cmode (cx s)) MMeta) then fail EContext None
      else if has_pending_flow s then fail EFlow None
      else context_close.

    Definition intern_source (buf : string) : M unit := fun s =>
      let id := length (sources s) in
      ROk tt (set_input (set_sources s (sources s ++ [buf])) (mkinlex id (lex_new buf) :: input s)).

    Definition i_nested_inject : M unit :=
      let* s := get in
      if negb (mode_eqb (cmode (cx s)) MMeta) then fail EContext None
      else if has_pending_flow s then fail EFlow None
      else
        let* v := vec_collect_till_ptr (ds_len (cx s)) in
        let* t := join_str_vec (Some " ") v in
        context_close ;; intern_source t.

    Definition i_const : M unit :=
      let* name := next_name in
      let* s := get in
      if negb (mode_eqb (cmode (cx s)) MMeta) then fail EMsg None
      else
        let* v := pop_data in
        let* s1 := get in
        match dict_pos s1 name with
        | Some pos =>
          match nth_error (dict s1) pos with
          | Some e => match dent e with
                      | DConst _ => put (set_dict s1 (list_set (dict s1) pos (mkdent (dname e) (DConst v))))
                      | _ => fail EConst None
                      end
          | None => fail EInternal None
          end
        | None => let* _ := dict_insert name (DConst v) in ret tt
        end.

    Definition i_do : M unit :=
      let* s := get in
      let for_org := code_origin s in
      code_emit (ODo 0) ;;
      push_flow (FDo for_org (S for_org)).

    Fixpoint loop_loop (fuel : nat) (loop_org stop_org : nat) : M unit :=
      match fuel with
      | O => unsup
      | S f =>
        let* fl := pop_flow in
        match fl with
        | Some (FBreak org) =>
          backpatch org (OBreak (jump_offset org stop_org)) ;; loop_loop f loop_org stop_org
        | Some (FDo for_org body_org) =>
          backpatch for_org (ODo (jump_offset for_org stop_org)) ;;
          backpatch loop_org (OLoop (jump_offset loop_org body_org))
        | _ => fail EFlow None
        end
      end.
    Definition i_loop : M unit :=
      let* s := get in
      let loop_org := code_origin s in
      code_emit (OLoop 0) ;;
      loop_loop (S (length (flows s))) loop_org (S loop_org).

    Definition i_foreach : M unit :=
      emit_native "%foreach-init" ;; i_do ;; emit_native "%foreach-next".

    Definition i_defined : M unit :=
      let* name := next_name in
      let* s := get in
      code_emit_value (CFlag (match dict_pos s name with Some _ => true | None => false end)).

    Definition i_set_fmt_base (n : Z) : M unit := code_emit_value (CInt n) ;; emit_native "%fmt-base".

    (* ---- let ---- *)
    Definition build_let_named (name : string) : M unit :=
      let* s := get in
      match top_function_flow s with
      | Some _ => build_local_variable name
      | None => build_global_variable name
      end.
    Definition build_let_match (v : cell) : M unit := code_emit_value v ;; emit_native "assert-eq".

    Definition assert_msg : cell := CStr "assert.msg".
    Definition usize_max : Z := (two64 - 1)%Z.

    (* idx is a usize; usize::MAX marks "& consumed the rest" *)
    Definition let_vec_next (idx : Z) : M Z :=
      if (idx =? usize_max)%Z then fail EMsg None
      else code_emit_value (CInt idx) ;; emit_native "%let-vec-at" ;; ret (idx + 1)%Z.

    Fixpoint build_let_in (fuel : nat) : M unit :=
      match fuel with
      | O => unsup
      | S f =>
        let* t := get_token in
        match t with
        | BWord w =>
          if String.eqb w "^" then emit_native "dup" ;; build_let_tags f ;; build_let_in f
          else if String.eqb w "[" then build_let_vec f 0%Z
          else if String.eqb w "]" then fail EFlow None
          else if String.eqb w "{" then build_let_map f
          else if String.eqb w "}" then fail EFlow None
          else if String.eqb w "&" then fail ELetSyntax None
          else build_let_named w
        | BLit v => build_let_match v
        | BEnd => fail ELetSyntax None
        end
      end
    with build_let_tags (fuel : nat) : M unit :=
      match fuel with
      | O => unsup
      | S f =>
        emit_native "tags" ;;
        let* t := get_token in
        match t with
        | BWord w =>
          if String.eqb w "{" then build_let_map f
          else if String.eqb w "}" then fail EFlow None
          else if String.eqb w "]" then fail EFlow None
          else if String.eqb w "&" then fail EExpectLit None
          else build_let_named w
        | _ => fail EExpectName None
        end
      end
    with build_let_map (fuel : nat) : M unit :=
      match fuel with
      | O => unsup
      | S f =>
        emit_native "%let-map-begin" ;;
        (fix go (k : nat) : M unit :=
           match k with
           | O => unsup
           | S k' =>
             let* t := get_token in
             match t with
             | BWord w =>
               if String.eqb w "}" then emit_native "%let-map-end"
               else if String.eqb w "]" then fail EFlow None
               else fail EExpectLit None
             | BLit key =>
               code_emit_value key ;; emit_native "%let-map-lookup" ;; build_let_in f ;; go k'
             | BEnd => fail EExpectLit None
             end
           end) fuel
      end
    with build_let_vec (fuel : nat) (idx0 : Z) : M unit :=
      match fuel with
      | O => unsup
      | S f =>
        (fix go (k : nat) (idx : Z) : M unit :=
           match k with
           | O => unsup
           | S k' =>
             let* t := get_token in
             match t with
             | BWord w =>
               if String.eqb w "[" then
                 let* i' := let_vec_next idx in build_let_vec f 0%Z ;; go k' i'
               else if String.eqb w "]" then
                 if (idx =? usize_max)%Z then emit_native "%let-vec-any-len"
                 else
                   emit_native "%let-vec-len" ;;
                   code_emit_value (insert_tag (CInt idx) assert_msg (CStr "vector length mismatch")) ;;
                   emit_native "assert-eq"
               else if String.eqb w "&" then
                 code_emit_value (CInt idx) ;; emit_native "%let-vec-rest" ;; build_let_in f ;; go k' usize_max
               else if String.eqb w "{" then
                 let* i' := let_vec_next idx in build_let_map f ;; go k' i'
               else if String.eqb w "}" then fail EFlow None
               else if String.eqb w "^" then
                 (* the index is advanced and then taken back: idx -= 1 (wraps pos_ 0 only after an error) *)
                 let* i' := let_vec_next idx in build_let_tags f ;; go k' (i' - 1)%Z
               else
                 let* i' := let_vec_next idx in build_let_named w ;; go k' i'
             | BLit v => let* i' := let_vec_next idx in build_let_match v ;; go k' i'
             | BEnd => fail ELetSyntax None
             end
           end) fuel idx0
      end.

    (* ---- enum Name  : A  3 = B ... endenum ----
       `enum` opens a meta context that holds the two field words (dictionary names ":" and
       "=", purged again when that context closes), pushes the enum flow and opens the meta
       context in which the text up to the next field word runs.  A field word closes that
       inner context, defines the constant in the outer one and opens a fresh inner one. *)
    Definition def_immediate (name native : string) : M unit :=
      let* _ := dict_insert name (DFun true (FNative native) None) in ret tt.

    Definition i_enum : M unit :=
      let* name := next_name in
      i_nested_begin ;;
      def_immediate ":" "%enum-field" ;;
      def_immediate "=" "%enum-field-set" ;;
      push_flow (FEnum name []) ;;
      i_nested_begin.

    (* value of a field without explicit value: previous + 1, rejected when that leaves the i128 range
       (checked_add; before the repair of D36 the overflow-checking profile panicked and the
       release profile wrapped), first = 0 *)
    Definition enum_next_value (fields : list (string * Z)) : option Z :=
      match rev fields with
      | (_, prev) :: _ => if in_i128 (prev + 1)%Z then Some (prev + 1)%Z else None
      | [] => Some 0%Z
      end.

    (* the top of the whole flow stack (flow_stack.last_mut(): the context mark is not consulted) *)
    Definition enum_add_field (shortname : string) (val : list (string * Z) -> option Z) : M unit :=
      let* s := get in
      match flows s with
      | FEnum name fields :: r =>
        match val fields with
        | Some v =>
          put (set_flows s (FEnum name (fields ++ [(shortname, v)]) :: r)) ;;
          let* _ := dict_insert shortname (DConst (CInt v)) in
          i_nested_begin
        | None => fail EOverflow None
        end
      | _ => fail EFlow None
      end.

    Definition i_enum_field : M unit :=
      i_nested_end ;;
      let* shortname := next_name in
      enum_add_field shortname enum_next_value.

    Definition i_enum_field_set : M unit :=
      i_nested_end ;;
      let* c := pop_data in
      let* v := m_xint c in
      let* shortname := next_name in
      enum_add_field shortname (fun _ => Some v).

    Definition i_endenum : M unit :=
      i_nested_end ;;
      let* s := get in
      if (0 <? data_depth s)%nat then fail EMsg None
      else
        let* fl := pop_flow in
        match fl with
        | Some (FEnum _ _) => i_nested_end
        | _ => fail EFlow None
        end.

    Definition is_fvec f := match f with FVec => true | _ => false end.
    Definition is_fmap f := match f with FMap => true | _ => false end.
    Definition is_ftags f := match f with FTags => true | _ => false end.

    (* the immediate words; None = not an immediate of the modelled dictionary *)
    Definition immediate_fn (fuel : nat) (name : string) : option (M unit) :=
      let t : list (string * M unit) := [
        ("if", i_if); ("else", i_else); ("then", i_then); ("case", i_case); ("of", i_of);
        ("endof", i_endof); ("endcase", i_endcase); ("begin", i_begin); ("while", i_while);
        ("until", i_until); ("break", i_break); ("repeat", i_repeat);
        ("[", i_open FVec "%vec-begin"); ("]", i_close is_fvec "%vec-end");
        ("{", i_open FMap "%map-begin"); ("}", i_close is_fmap "%map-end");
        ("^{", i_open FTags "%vec-begin"); ("^}", i_close is_ftags "%tagmap-end");
        (":", i_def_begin); (";", i_def_end); ("late", i_late); ("immediate", i_immediate);
        ("local", i_local); ("var", i_var); ("!", i_setvar); ("nil", code_emit OLoadNil);
        ("#(", i_nested_begin); ("#)", i_nested_end); ("~)", i_nested_inject); ("const", i_const);
        ("do", i_do); ("loop", i_loop); ("foreach", i_foreach); ("defined", i_defined);
        ("let", build_let_in fuel);
        ("^hex", i_set_fmt_base 16); ("^dec", i_set_fmt_base 10); ("^oct", i_set_fmt_base 8);
        ("^bin", i_set_fmt_base 2); ("fmt/prefix", emit_native "%fmt-prefix");
        ("fmt/tags", emit_native "%fmt-tags"); ("fmt/upcase", emit_native "%fmt-upcase");
        ("enum", i_enum); ("endenum", i_endenum);
        ("%enum-field", i_enum_field); ("%enum-field-set", i_enum_field_set)
      ] in table_find t name.

    Definition run_immediate (fuel : nat) (f : fnref) : M unit :=
      match f with
      | FNative name =>
        match immediate_fn fuel name with
        | Some w => w
        | None => unsup
        end
      | FInterp x =>
        let* s := get in
        push_return (mkframe x (ip s) []) ;; set_ip x ;; run_m
      end.

    Definition build_word (fuel : nat) (name : string) : M unit :=
      let* s := get in
      match dict_entry s name with
      | None => fail EUnknown None
      | Some (DConst c) => code_emit (load_value_opcode c)
      | Some (DVar a) => code_emit (OLoad a)
      | Some (DFun true f _) => run_immediate fuel f
      | Some (DFun false (FInterp x) _) => code_emit (OCall x)
      | Some (DFun false (FNative x) _) => code_emit (ONative x)
      end.

    Fixpoint build1 (fuel : nat) (ctx_depth : nat) : M unit :=
      match fuel with
      | O => unsup
      | S f =>
        let* s := get in
        (if mode_eqb (cmode (cx s)) MMeta && negb (has_pending_flow s) then run_m else ret tt) ;;
        let* t := get_token in
        match t with
        | BEnd =>
          let* s' := get in
          if negb (length (nested s') =? ctx_depth)%nat then fail EContext None
          else if has_pending_flow s' then fail EFlow None
          else ret tt
        | BLit v => code_emit_value v ;; build1 f ctx_depth
        | BWord name =>
          let* s' := get in
          match top_function_flow s' with
          | Some (_, _, ls) =>
            match rposition ls name 0 None with
            | Some i => code_emit (OLoadLocal i) ;; build1 f ctx_depth
            | None => build_word f name ;; build1 f ctx_depth
            end
          | None => build_word f name ;; build1 f ctx_depth
          end
        end
      end.

    (* a failed build is unwound: unread text, half-built code, pending structures,
       contexts, definitions and allocations of the rejected source are dropped *)
    Fixpoint leave_contexts (fuel : nat) (depth : nat) (s : state) : state :=
      match fuel with
      | O => s
      | S f =>
        if (S depth <? length (nested s))%nat then
          match nested s with
          | prev :: rest => leave_contexts f depth (set_cx (set_nested s rest) prev)
          | [] => s
          end
        else s
      end.

    Definition lastn {A} (n : nat) (l : list A) : list A := skipn (length l - n) l.

    Definition build_unwind (depth inputs dsl heapl : nat) (s : state) : state :=
      let s0 := set_input s (lastn inputs (input s)) in
      let s1 := leave_contexts (S (length (nested s0))) depth s0 in
      let c := cx s1 in
      let s2 := set_dbg (set_code s1 (firstn (cs_len c) (code s1))) (firstn (cs_len c) (dbg s1)) in
      let s3 := set_dict (set_flows s2 (lastn (fs_len c) (flows s2))) (firstn (di_len c) (dict s2)) in
      let s4 := set_special (set_loops (set_rs s3 (lastn (rs_len c) (rs s3))) (lastn (ls_len c) (loops s3)))
                            (lastn (ss_ptr c) (special s3)) in
      let s5 := set_heap (set_ds s4 (lastn dsl (ds s4))) (firstn heapl (heap s4)) in
      match nested s5 with
      | prev :: rest => if (depth <? length (nested s5))%nat then set_cx (set_nested s5 rest) prev else s5
      | [] => s5
      end.

    Definition build_from_source (fuel : nat) (src : string) (m : mode) : M unit := fun s =>
      let depth := length (nested s) in
      let inputs := length (input s) in
      let dsl := length (ds s) in
      let heapl := length (heap s) in
      match (context_open m ;; intern_source src) s with
      | ROk _ s1 =>
        match build1 fuel (length (nested s1)) s1 with
        | ROk _ s2 => context_close s2
        | RErr k p s2 => RErr k p (build_unwind depth inputs dsl heapl s2)
        | RPanic => RPanic
        | RUnsup => RUnsup
        end
      | e => e
      end.
  End WithRun.

  Definition eval (run_fuel fuel : nat) (src : string) : M unit := build_from_source run_fuel fuel src MEval.
  Definition compile (run_fuel fuel : nat) (src : string) : M unit := build_from_source run_fuel fuel src MCompile.
End Build.
