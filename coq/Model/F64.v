(* F64.v: IEEE-754 binary64 arithmetic on bit patterns, taken from Flocq
   (b64_plus/minus/mult/div in round-to-nearest-even), plus fmod and min/max.
   This is the reference instance of [fops] used by the arithmetic stream (C09). *)
From Flocq Require Import Core.Core IEEE754.BinarySingleNaN IEEE754.Binary IEEE754.Bits.
From Xeh Require Import Model.Prelude Model.Cell Model.F64c Model.Words Model.Boot.
Local Open Scope Z_scope.

Definition pat (z : Z) : Z := z mod 2 ^ 64.

Definition fl_add (p q : Z) : Z := bits_of_b64 (b64_plus mode_NE (b64_of_bits (pat p)) (b64_of_bits (pat q))).
Definition fl_sub (p q : Z) : Z := bits_of_b64 (b64_minus mode_NE (b64_of_bits (pat p)) (b64_of_bits (pat q))).
Definition fl_mul (p q : Z) : Z := bits_of_b64 (b64_mult mode_NE (b64_of_bits (pat p)) (b64_of_bits (pat q))).
Definition fl_div (p q : Z) : Z := bits_of_b64 (b64_div mode_NE (b64_of_bits (pat p)) (b64_of_bits (pat q))).

(* exact value m * 2^e (m >= 0) to the nearest binary64, ties to even *)
Definition f64_of_scaled (neg : bool) (m e : Z) : Z :=
  if m =? 0 then f64_sign_bit neg
  else
    let L := bitlen m in
    (* normalise to a 53-bit significand: value = m53 * 2^e53 *)
    let e53 := e + (L - 53) in
    (* biased exponent if normal *)
    let E := e53 + 1075 in
    if 0 <? E then
      let m53 := rne_shr m (L - 53) in
      let '(m53', E') := if m53 =? 2 ^ 53 then (2 ^ 52, E + 1) else (m53, E) in
      if 2047 <=? E' then f64_sign_bit neg + 2047 * 2 ^ 52
      else f64_sign_bit neg + E' * 2 ^ 52 + (m53' - 2 ^ 52)
    else
      (* subnormal range: quantum 2^-1074 *)
      f64_sign_bit neg + rne_shr m (- (e + 1074)).

(* fmod: x - trunc(x/y) * y, exact; sign of the dividend *)
Definition fl_rem (p q : Z) : Z :=
  let p := pat p in let q := pat q in
  if f64_is_nan p || f64_is_nan q || (f64_exp p =? 2047) || f64_is_zero q then 2047 * 2 ^ 52 + 2 ^ 51
  else if f64_exp q =? 2047 then p
  else if f64_is_zero p then p
  else
    let ex := f64_ex p in let ey := f64_ex q in
    let e := Z.min ex ey in
    let X := f64_mant p * 2 ^ (ex - e) in
    let Y := f64_mant q * 2 ^ (ey - e) in
    let R := X mod Y in
    f64_of_scaled (f64_neg p) R e.

(* f64::min / f64::max: a NaN operand is ignored *)
Definition fl_min (p q : Z) : Z :=
  if f64_is_nan p then q else if f64_is_nan q then p
  else if (f64_key p <? f64_key q) then p else if (f64_key q <? f64_key p) then q
  else if f64_neg p then p else q.
Definition fl_max (p q : Z) : Z :=
  if f64_is_nan p then q else if f64_is_nan q then p
  else if (f64_key q <? f64_key p) then p else if (f64_key p <? f64_key q) then q
  else if f64_neg p then q else p.

Definition flocq_fops : fops := fops_with fl_add fl_sub fl_mul fl_div fl_rem fl_min fl_max.
