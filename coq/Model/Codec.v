(* Codec.v: mirror of to_uint / to_int / from_int / float codecs of bitstr.rs,
   and the specification of what a field of bits means as a number. *)
From Xeh Require Import Model.Prelude Model.Bits.

Inductive order := Little | Big.

(* ---------- mirror ---------- *)

(* to_uint walks the 8-bit groups of the value (D7 repair): big-endian shifts
   the accumulator in, little-endian places each group at the number of bits
   already consumed.  The accumulator is a u128. *)
Definition to_uint (o : order) (c : cbs) : Z :=
  match o with
  | Big =>
    fold_left (fun acc '(v, n) =>
                 Z.lor (Z.shiftl acc (Z.of_nat n) mod two128) (Z.of_N v))
              (iter8 c) 0%Z
  | Little =>
    fst (fold_left (fun '(acc, sh) '(v, n) =>
                      (Z.lor acc (Z.shiftl (Z.of_N v) (Z.of_nat sh) mod two128), sh + n))
                   (iter8 c) (0%Z, 0))
  end.

(* to_int: sign extension of to_uint (D10 repair: an empty field is 0) *)
Definition to_int (o : order) (c : cbs) : Z :=
  let val := to_uint o c in
  let len := clen c in
  if len =? 0 then 0%Z
  else if len =? 128 then of_u128 val
  else if Z.testbit val (Z.of_nat (len - 1)) then
    let mask := (Z.pow 2 (Z.of_nat len) - 1)%Z in
    (- (Z.land (two128 - 1 - val) mask + 1))%Z
  else val.

(* from_int: 8-bit groups, the last one left aligned in its byte *)
Definition u8_of (z : Z) : N := Z.to_N (z mod 256).
Definition shl8 (x : N) (k : nat) : N := N.land (N.shiftl x (N.of_nat k)) 255.

Fixpoint from_int_be (val : Z) (fuel i : nat) : list N :=
  match fuel with
  | O => []
  | S f =>
    if i =? 0 then [] else
    let n := Nat.min i 8 in
    let x := u8_of (Z.shiftr val (Z.of_nat ((i - n) mod 128))) in
    shl8 x (8 - n) :: from_int_be val f (i - n)
  end.

Fixpoint from_int_le (val : Z) (num_bits fuel i : nat) : list N :=
  match fuel with
  | O => []
  | S f =>
    if num_bits <=? i then [] else
    let n := Nat.min (num_bits - i) 8 in
    let x := u8_of (Z.shiftr val (Z.of_nat (i mod 128))) in
    shl8 x (8 - n) :: from_int_le val num_bits f (i + n)
  end.

Definition from_int (val : Z) (num_bits : nat) (o : order) : cbs :=
  mkcbs 0 num_bits
        (match o with
         | Big => from_int_be val num_bits num_bits
         | Little => from_int_le val num_bits num_bits 0
         end).

(* float codecs on bit patterns: the first k groups of iter8 (missing ones are 0)
   interpreted as k bytes in the given byte order *)
Fixpoint take_pad (k : nat) (l : list N) : list N :=
  match k with
  | O => []
  | S j => match l with
           | [] => 0%N :: take_pad j []
           | x :: r => x :: take_pad j r
           end
  end.

Definition be_bytes_to_Z (l : list N) : Z :=
  fold_left (fun acc b => (acc * 256 + Z.of_N b)%Z) l 0%Z.

Definition to_fbits (k : nat) (o : order) (c : cbs) : Z :=
  let buf := take_pad k (map fst (iter8 c)) in
  match o with
  | Big => be_bytes_to_Z buf
  | Little => be_bytes_to_Z (rev buf)
  end.

Fixpoint Z_to_be_bytes (k : nat) (z : Z) : list N :=
  match k with
  | O => []
  | S j => Z_to_be_bytes j (z / 256) ++ [u8_of z]
  end.

Definition from_fbits (k : nat) (o : order) (pat : Z) : cbs :=
  let be := Z_to_be_bytes k pat in
  from_bytes (match o with Big => be | Little => rev be end).

(* ---------- specification ---------- *)

Definition bitsZ (l : list bool) : Z := Z.of_N (bits_to_N l).

(* the number a bit sequence denotes: big-endian is plain binary; little-endian
   weighs the k-th 8-bit group (counted from the front) by 2^(8k) *)
Fixpoint le_groups (gs : list (list bool)) (sh : nat) : Z :=
  match gs with
  | [] => 0%Z
  | g :: r => (bitsZ g * Z.pow 2 (Z.of_nat sh) + le_groups r (sh + length g))%Z
  end.

Definition spec_uint (o : order) (l : list bool) : Z :=
  match o with
  | Big => bitsZ l
  | Little => le_groups (chunk8 l) 0
  end.

(* two's complement reading of an unsigned w-bit number *)
Definition sext (w : nat) (u : Z) : Z :=
  if w =? 0 then 0%Z
  else if (u <? Z.pow 2 (Z.of_nat (w - 1)))%Z then u else (u - Z.pow 2 (Z.of_nat w))%Z.

Definition spec_int (o : order) (l : list bool) : Z := sext (length l) (spec_uint o l).

(* standard byte layouts of v mod 2^(8k) *)
Definition be_layout (k : nat) (v : Z) : list N := Z_to_be_bytes k (v mod Z.pow 2 (Z.of_nat (8 * k))).
Definition le_layout (k : nat) (v : Z) : list N := rev (be_layout k v).
