(* Bits.v: mirror of /repo/src/bitstr.rs (Bitstr, Bits, Iter8, BitvecBuilder)
   and the abstract specification on lists of booleans.

   A concrete bit-string [cbs] is a bit range [cstart, cend) into a byte buffer.
   Ownership (Rc strong count, Cow borrowed/owned) is not part of a value here:
   the only place where the Rust code looks at it is [detach], which takes the
   answer of [Rc::strong_count(..) == 1] as the boolean [unique]. *)
From Xeh Require Import Model.Prelude.

Record cbs := mkcbs { cstart : nat; cend : nat; cdata : list N }.

Definition clen (c : cbs) : nat := cend c - cstart c.

(* well-formed: the range lies inside the buffer and bytes are bytes *)
Definition wf (c : cbs) : Prop :=
  cstart c <= cend c /\ cend c <= 8 * length (cdata c) /\
  Forall (fun x => (x < 256)%N) (cdata c).

Definition wfb (c : cbs) : bool :=
  (cstart c <=? cend c) && (cend c <=? 8 * length (cdata c)) &&
  forallb (fun x => (x <? 256)%N) (cdata c).

Definition nthb (d : list N) (i : nat) : N := nth i d 0%N.

(* ---------- specification layer: the bit sequence a value denotes ---------- *)

Definition getbit (d : list N) (i : nat) : bool :=
  N.testbit (nthb d (i / 8)) (N.of_nat (7 - i mod 8)).

Definition abs (c : cbs) : list bool :=
  map (getbit (cdata c)) (seq (cstart c) (clen c)).

(* ---------- mirror layer ---------- *)

(* upper_bound_index *)
Definition ubi (n : nat) : nat := n / 8 + (if 0 <? n mod 8 then 1 else 0).

(* bit_mask(len) = !(0xff << len) as u8 *)
Definition bit_mask (len : nat) : N :=
  N.land (N.lxor 255 (N.land (N.shiftl 255 (N.of_nat len)) 255)) 255.

(* cut_bits(x, start, end) *)
Definition cut_bits (x : N) (s e : nat) : N * nat :=
  let sb := s mod 8 in
  let len := Nat.min (e - s) (8 - sb) in
  let shift := 8 - (sb + len) in
  (N.land (N.shiftr x (N.of_nat shift)) (bit_mask len), len).

(* Bits iterator: (data[i] >> offset) & 1 *)
Definition bit_at (d : list N) (pos : nat) : N :=
  N.land (N.shiftr (nthb d (pos / 8)) (N.of_nat (7 - pos mod 8))) 1.

Definition bits (c : cbs) : list N :=
  map (bit_at (cdata c)) (seq (cstart c) (clen c)).

(* Iter8 iterator: groups of up to 8 bits, value right-aligned *)
Fixpoint iter8_go (d : list N) (e : nat) (fuel : nat) (pos : nat) : list (N * nat) :=
  match fuel with
  | O => []
  | S f =>
    if e <=? pos then [] else
    let len := Nat.min (e - pos) 8 in
    let idx := pos / 8 in
    let '(v, n) := cut_bits (nthb d idx) pos (pos + len) in
    let v' := if n <? len
              then let '(v2, n2) := cut_bits (nthb d (idx + 1)) (pos + n) (pos + len) in
                   N.lor (N.shiftl v (N.of_nat n2)) v2
              else v in
    (v', len) :: iter8_go d e f (pos + len)
  end.

Definition iter8 (c : cbs) : list (N * nat) :=
  iter8_go (cdata c) (cend c) (clen c) (cstart c).

(* seek / read / peek / substr / split_at.  Positions are buffer coordinates
   exactly as in the Rust code. *)
Definition seek (c : cbs) (pos : nat) : option cbs :=
  if (cstart c <=? pos) && (pos <=? cend c)
  then Some (mkcbs pos (cend c) (cdata c)) else None.

(* read returns (result, advanced self) *)
Definition read (c : cbs) (n : nat) : option (cbs * cbs) :=
  let pos := cstart c + n in
  if cend c <? pos then None
  else Some (mkcbs (cstart c) pos (cdata c), mkcbs pos (cend c) (cdata c)).

Definition peek (c : cbs) (n : nat) : option cbs :=
  let e := cstart c + n in
  if (cstart c <=? e) && (e <=? cend c)
  then Some (mkcbs (cstart c) e (cdata c)) else None.

Definition substr (c : cbs) (s e : nat) : option cbs :=
  if (s <=? e) && (cstart c <=? s) && (e <=? cend c)
  then Some (mkcbs s e (cdata c)) else None.

Definition split_at (c : cbs) (i : nat) : option (cbs * cbs) :=
  let mid := cstart c + i in
  if cend c <? mid then None
  else Some (mkcbs (cstart c) mid (cdata c), mkcbs mid (cend c) (cdata c)).

Definition is_bytestr (c : cbs) : bool := clen c mod 8 =? 0.
Definition is_u8_slice (c : cbs) : bool := (cstart c mod 8 =? 0) && is_bytestr c.

(* bytes_range and slice *)
Definition bytes_of (c : cbs) : list N :=
  firstn (ubi (cend c) - cstart c / 8) (skipn (cstart c / 8) (cdata c)).

Definition slice (c : cbs) : option (list N) :=
  if is_u8_slice c then Some (bytes_of c) else None.

Definition to_bytes_with_padding (c : cbs) : list N := map fst (iter8 c).

Definition to_bytes (c : cbs) : option (list N) :=
  if is_bytestr c then
    if cstart c mod 8 =? 0 then slice c else Some (to_bytes_with_padding c)
  else None.

Definition bytestr (c : cbs) : option (list N) :=
  match slice c with
  | Some d => Some d
  | None => if is_bytestr c then Some (to_bytes_with_padding c) else None
  end.

(* detach: [unique] is the value of Rc::strong_count(&self.data) == 1 *)
(* a uniquely owned value is kept as it is only when it starts at bit 0; a slice with a non-zero start is always copied
   (rebased to bit 0), so that the representation of the result does not depend on who else holds the buffer *)
Definition detach (unique : bool) (c : cbs) : cbs :=
  if unique && (cstart c =? 0) then c
  else if clen c =? 0 then mkcbs 0 0 []
  else mkcbs 0 (clen c)
             (map (fun '(v, n) => N.land (N.shiftl v (N.of_nat (8 - n))) 255) (iter8 c)).

(* in-place update of one byte *)
Fixpoint upd (d : list N) (i : nat) (f : N -> N) : list N :=
  match d, i with
  | [], _ => []
  | x :: r, O => f x :: r
  | x :: r, S j => x :: upd r j f
  end.

(* data[i] |= x << (7 - pos % 8), bit by bit *)
Fixpoint or_bits (d : list N) (pos : nat) (bs : list N) : list N :=
  match bs with
  | [] => d
  | x :: r =>
    or_bits (upd d (pos / 8) (fun y => N.lor y (N.shiftl x (N.of_nat (7 - pos mod 8)))))
            (S pos) r
  end.

Definition resize (d : list N) (n : nat) : list N :=
  firstn n d ++ repeat 0%N (n - length d).

(* append_bits_mut, with the D6 repair: the buffer is first cut back to the
   bytes this value covers and the bits after its end are cleared *)
Definition trim_tail (c : cbs) : list N :=
  let e := cend c in
  let used := ubi e in
  let d := firstn used (cdata c) in
  if 0 <? e mod 8
  then upd d (used - 1) (fun y => N.land y (N.land (N.shiftl 255 (N.of_nat (8 - e mod 8))) 255))
  else d.

Definition append_bits_mut (c : cbs) (t : cbs) : cbs :=
  let d0 := trim_tail c in
  if is_u8_slice c && is_u8_slice t then
    mkcbs (cstart c) (cend c + clen t) (d0 ++ bytes_of t)
  else
    let pos := cend c in
    let new_len := ubi (pos + clen t) in
    let d1 := resize d0 new_len in
    mkcbs (cstart c) (pos + clen t) (or_bits d1 pos (bits t)).

Definition append (unique : bool) (c t : cbs) : cbs :=
  append_bits_mut (detach unique c) t.

Definition insert (unique : bool) (c : cbs) (i : nat) (s : cbs) : option cbs :=
  match split_at c i with
  | None => None
  | Some (l, r) => Some (append_bits_mut (append_bits_mut (detach unique l) s) r)
  end.

Fixpoint xor_bits (d : list N) (pos : nat) (n : nat) : list N :=
  match n with
  | O => d
  | S m => xor_bits (upd d (pos / 8) (fun y => N.lxor y (N.shiftl 1 (N.of_nat (7 - pos mod 8)))))
                    (S pos) m
  end.

Definition invert (unique : bool) (c : cbs) : cbs :=
  let s := detach unique c in
  mkcbs (cstart s) (cend s) (xor_bits (cdata s) (cstart s) (clen s)).

Fixpoint list_eqb {A} (eqb : A -> A -> bool) (a b : list A) : bool :=
  match a, b with
  | [], [] => true
  | x :: a', y :: b' => eqb x y && list_eqb eqb a' b'
  | _, _ => false
  end.

Definition pair_eqb (a b : N * nat) : bool := (fst a =? fst b)%N && (snd a =? snd b).

Definition eq_with (a b : cbs) : bool :=
  if negb (clen a =? clen b) then false
  else if is_u8_slice a && is_u8_slice b then list_eqb N.eqb (bytes_of a) (bytes_of b)
  else list_eqb pair_eqb (iter8 a) (iter8 b).

(* to_hex_string: digits as numbers 0..15 *)
Definition to_hex_digits (c : cbs) : list N :=
  flat_map (fun '(v, n) =>
              (if 4 <? n then [N.shiftr v 4] else []) ++ [N.land v 15]) (iter8 c).

(* BitvecBuilder *)
Record bvb := mkbvb { blen : nat; bdata : list N }.
Definition bvb_empty := mkbvb 0 [].
Definition append_bit (b : bvb) (v : N) : bvb :=
  let idx := blen b / 8 in
  if length (bdata b) =? idx
  then mkbvb (S (blen b)) (bdata b ++ [N.land (N.shiftl v 7) 255])
  else mkbvb (S (blen b))
             (upd (bdata b) idx (fun y => N.lor y (N.shiftl v (N.of_nat (7 - blen b mod 8))))).
Definition bvb_finish (b : bvb) : cbs := mkcbs 0 (blen b) (bdata b).

Definition from_bits (l : list N) : cbs := bvb_finish (fold_left append_bit l bvb_empty).

(* from_hex_str on the already-filtered digit values (whitespace removed) *)
Fixpoint from_hex_go (ds : list N) (n : nat) (buf : list N) : nat * list N :=
  match ds with
  | [] => (n, buf)
  | v :: r =>
    let idx := n / 8 in
    let buf' := if length buf =? idx then buf ++ [N.land (N.shiftl v 4) 255]
                else upd buf idx (fun y => N.lor y v) in
    from_hex_go r (n + 4) buf'
  end.
Definition from_hex (ds : list N) : cbs :=
  let '(n, buf) := from_hex_go ds 0 [] in mkcbs 0 n buf.

Definition from_bytes (d : list N) : cbs := mkcbs 0 (8 * length d) d.

(* ---------- specification-layer helpers ---------- *)
Definition of_bools (l : list bool) : cbs :=
  from_bits (map b2n l).

(* an 8-bit group as the iterator reports it: (value, number of bits) *)
Definition grp (g : list bool) : N * nat := (bits_to_N g, length g).

Definition nibble_bits (d : N) : list bool :=
  [N.testbit d 3; N.testbit d 2; N.testbit d 1; N.testbit d 0].
