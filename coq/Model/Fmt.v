(* Fmt.v: mirror of the literal printer (Debug for Cell, /repo/src/cell.rs:81-188,
   fmt_flags.rs) for the values the print/read property talks about. *)
From Xeh Require Import Model.Prelude Model.Bits Model.Cell Model.Lexer.
Local Open Scope string_scope.

(* FmtFlags: a raw usize; the low byte is the base *)
Definition fmt_default : Z := (10 + 256)%Z.
Definition fl_base (f : Z) : Z := (f mod 256)%Z.
Definition fl_prefix (f : Z) : bool := Z.testbit f 8.
Definition fl_tags (f : Z) : bool := Z.testbit f 9.
Definition fl_fit (f : Z) : bool := Z.testbit f 10.
Definition fl_upcase (f : Z) : bool := Z.testbit f 11.
Definition fl_set_base (f n : Z) : Z := (f - f mod 256 + n mod 256)%Z.
Definition fl_set_bit (f : Z) (k : Z) (t : bool) : Z :=
  if t then Z.lor f (Z.shiftl 1 k) else Z.land f (Z.lnot (Z.shiftl 1 k)).

Definition digit_char (upcase : bool) (d : N) : ascii :=
  if (d <? 10)%N then ascii_of_N (48 + d)
  else if upcase then ascii_of_N (55 + d) else ascii_of_N (87 + d).

(* digits of a non-negative number, most significant first *)
Fixpoint digits_go (fuel : nat) (base : Z) (upcase : bool) (z : Z) (acc : string) : string :=
  match fuel with
  | O => acc
  | S f =>
    let acc' := String (digit_char upcase (Z.to_N (z mod base))) acc in
    if (z / base =? 0)%Z then acc' else digits_go f base upcase (z / base) acc'
  end.
Definition digits (base : Z) (upcase : bool) (z : Z) : string := digits_go 130 base upcase z "".

Definition fmt_int (f : Z) (z : Z) : string :=
  let b := fl_base f in
  if (b =? 2)%Z then (if fl_prefix f then "0b" else "") ++ digits 2 false (z mod two128)
  else if (b =? 8)%Z then (if fl_prefix f then "0o" else "") ++ digits 8 false (z mod two128)
  else if (b =? 16)%Z then (if fl_prefix f then "0x" else "") ++ digits 16 (fl_upcase f) (z mod two128)
  else if (z <? 0)%Z then "-" ++ digits 10 false (- z) else digits 10 false z.

(* one 8-bit group of a bit-string literal: hex digits (upper case) for whole
   nibbles, then x / . for the remaining bits *)
Definition fmt_group (v : N) (n : nat) : string :=
  let '(s1, n1) := if (4 <? n)%nat then (String (digit_char true (N.shiftr v (N.of_nat (n - 4)))) "", n - 4)
                   else ("", n) in
  let '(s2, n2) := if (n1 =? 4)%nat then (String (digit_char true (N.land v 15)) "", 0) else ("", n1) in
  let fix bits (k : nat) : string :=
      match k with
      | O => ""
      | S j => String (if N.testbit v (N.of_nat j) then "x" else ".")%char (bits j)
      end in
  s1 ++ s2 ++ bits n2.

Fixpoint fmt_groups (l : list (N * nat)) (first : bool) : string :=
  match l with
  | [] => ""
  | (v, n) :: r => (if first then "" else " ") ++ fmt_group v n ++ fmt_groups r false
  end.

Definition fmt_bitstr (b : cbs) : string := "|" ++ fmt_groups (iter8 b) true ++ "|".

(* strings: str's Debug escaping for printable ASCII and the simple escapes;
   anything else is outside the model *)
Fixpoint fmt_str_body (s : string) : option string :=
  match s with
  | "" => Some ""
  | String c r =>
    match fmt_str_body r with
    | None => None
    | Some r' =>
      let n := byte_of c in
      if (n =? 34)%N then Some ("\""" ++ r')
      else if (n =? 92)%N then Some ("\\" ++ r')
      else if (n =? 10)%N then Some ("\n" ++ r')
      else if (n =? 13)%N then Some ("\r" ++ r')
      else if (n =? 9)%N then Some ("\t" ++ r')
      else if (32 <=? n)%N && (n <? 127)%N then Some (String c r')
      else None
    end
  end.

Definition opt_prefix (p : string) (o : option string) : option string :=
  match o with Some s => Some (p ++ s) | None => None end.

(* the printer; [None] = a value whose rendering is not modelled (reals, functions,
   non-ASCII strings, elided output) *)
Fixpoint fmt_cell (f : Z) (c : cell) {struct c} : option string :=
  match c with
  | CNil => Some "nil"
  | CFlag true => Some "true"
  | CFlag false => Some "false"
  | CInt z => Some (fmt_int f z)
  | CReal _ => None
  | CStr s => if fl_fit f && (75 <? String.length s)%nat then None
              else match fmt_str_body s with Some b => Some ("""" ++ b ++ """") | None => None end
  | CVec l =>
    if fl_fit f && (11 <? List.length l)%nat then None else
    opt_prefix "[ " ((fix go (l : list cell) : option string :=
       match l with
       | [] => Some "]"
       | x :: r => match fmt_cell f x, go r with
                   | Some a, Some b => Some (a ++ " " ++ b)
                   | _, _ => None
                   end
       end) l)
  | CMap m =>
    if fl_fit f && (11 <? List.length m)%nat then None else
    opt_prefix "{ " ((fix go (m : list (cell * cell)) : option string :=
       match m with
       | [] => Some "}"
       | kv :: r => match fmt_cell f (snd kv), fmt_cell f (fst kv), go r with
                    | Some a, Some b, Some c => Some (a ++ " " ++ b ++ " " ++ c)
                    | _, _, _ => None
                    end
       end) m)
  | CFun _ => None
  | CBits b => if fl_fit f && (31 <? List.length (iter8 b))%nat then None else Some (fmt_bitstr b)
  | CAny => None
  | CTag t v =>
    if fl_tags f then None else fmt_cell f v
  end.

(* State::format_cell: the flags come from the value's own #fmt tag *)
Definition fmt_tag_name : cell := CStr "#fmt".
Definition parse_fmt_flags (c : cell) : option Z :=
  match tags_of c with
  | None => None
  | Some t => match assoc_find t fmt_tag_name with
              | Some v => match to_usize v with Ok z => Some (z mod 65536)%Z | _ => None end   (* raw & 0xffff *)
              | None => None
              end
  end.
Definition format_cell (c : cell) : option string :=
  fmt_cell (match parse_fmt_flags c with Some f => f | None => fmt_default end) c.
