(* Boot.v: the interpreter state after State::boot(): the dictionary (names, kinds,
   immediate flags, in definition order) and the six heap cells of the bit-string module.
   Written from /repo/src/state.rs load_core, arith.rs, istype.rs, bitstr_ext.rs, base_ext.rs;
   the correspondence check compares it with the implementation's dictionary on every run. *)
From Xeh Require Import Model.Prelude Model.Bits Model.Cell Model.Lexer Model.Vm.
Local Open Scope string_scope.

Definition nat_word (imm : bool) (name : string) : dentry := mkdent name (DFun imm (FNative name) None).
Definition W := nat_word false.
Definition IMM := nat_word true.

Definition boot_dict : list dentry := [
  mkdent "true" (DConst (CFlag true));
  mkdent "false" (DConst (CFlag false));
  IMM "if";
  IMM "else";
  IMM "then";
  IMM "case";
  IMM "of";
  IMM "endof";
  IMM "endcase";
  IMM "begin";
  IMM "while";
  IMM "until";
  IMM "break";
  IMM "repeat";
  IMM "[";
  IMM "]";
  IMM "{";
  IMM "}";
  W "insert";
  W "remove";
  IMM ":";
  IMM ";";
  IMM "late";
  IMM "immediate";
  IMM "local";
  IMM "var";
  IMM "!";
  IMM "nil";
  IMM "#(";
  IMM "#)";
  IMM "~)";
  IMM "const";
  IMM "do";
  IMM "loop";
  IMM "foreach";
  IMM "defined";
  IMM "let";
  W "equal?";
  W "nil?";
  W "I";
  W "J";
  W "K";
  W "length";
  W "nth";
  W "get";
  W "concat";
  W "join";
  W "sort";
  W "reverse";
  W "push";
  W "collect";
  W "unbox";
  W "dup";
  W "drop";
  W "swap";
  W "rot";
  W "over";
  W "depth";
  W "assert";
  W "assert-eq";
  W "exit";
  W ".s";
  W "println";
  W "print";
  W "newline";
  W "str>number";
  W "slice";
  IMM "include";
  IMM "require";
  W "tags";
  W "with-tags";
  W "insert-tag";
  W "remove-tag";
  W "get-tag";
  IMM "^{";
  IMM "^}";
  IMM "^hex";
  IMM "^dec";
  IMM "^oct";
  IMM "^bin";
  IMM "fmt/prefix";
  IMM "fmt/tags";
  IMM "fmt/upcase";
  IMM "see";
  W "error";
  IMM "enum";
  IMM "endenum";
  W "<name>";
  W "+";
  W "-";
  W "*";
  W "/";
  W "neg";
  W "abs";
  W "<";
  W "<=";
  W ">";
  W ">=";
  W "==";
  W "<>";
  W "rem";
  W "and";
  W "or";
  W "xor";
  W "not";
  W "band";
  W "bor";
  W "bxor";
  W "bnot";
  W "bsl";
  W "bsr";
  W "round";
  W "random";
  W "min";
  W "max";
  W ">real";
  W ">int";
  W "zero?";
  W "positive?";
  W "negative?";
  W "popcnt";
  W "nil?";
  W "bool?";
  W "int?";
  W "real?";
  W "str?";
  W "bitstr?";
  W "vec?";
  mkdent "big?" (DVar 0);
  mkdent "input" (DVar 1);
  mkdent "offset" (DVar 2);
  mkdent "output" (DVar 4);
  mkdent "output-length" (DVar 5);
  W "open-bitstr";
  W "close-bitstr";
  W ">b";
  W ">kb";
  W ">mb";
  W "seek";
  W "remain";
  W "find";
  W "dump";
  W "dump-at";
  W "bits";
  W "bytes";
  W "bitstr-len";
  W "bitstr-append";
  W "bitstr-not";
  W "bitstr-and";
  W "bitstr-or";
  W "bitstr-xor";
  W "hex>bitstr";
  W "bitstr>hex";
  W ">bitstr";
  W "bitstr>utf8";
  W "big";
  W "little";
  W "magic";
  W "emit";
  W "write-all";
  W "read-all";
  W "exec-piped";
  W "random-bits";
  W "u8";
  W "u8le";
  W "u8be";
  W "i8";
  W "i8le";
  W "i8be";
  W "u8!";
  W "u8le!";
  W "u8be!";
  W "i8!";
  W "i8le!";
  W "i8be!";
  W "u16";
  W "u16le";
  W "u16be";
  W "i16";
  W "i16le";
  W "i16be";
  W "u16!";
  W "u16le!";
  W "u16be!";
  W "i16!";
  W "i16le!";
  W "i16be!";
  W "u32";
  W "u32le";
  W "u32be";
  W "i32";
  W "i32le";
  W "i32be";
  W "u32!";
  W "u32le!";
  W "u32be!";
  W "i32!";
  W "i32le!";
  W "i32be!";
  W "u64";
  W "u64le";
  W "u64be";
  W "i64";
  W "i64le";
  W "i64be";
  W "u64!";
  W "u64le!";
  W "u64be!";
  W "i64!";
  W "i64le!";
  W "i64be!";
  W "f32";
  W "f32le";
  W "f32be";
  W "f32!";
  W "f32le!";
  W "f32be!";
  W "f64";
  W "f64le";
  W "f64be";
  W "f64!";
  W "f64le!";
  W "f64be!";
  W "float";
  W "float!";
  W "int";
  W "uint";
  W "int!";
  W "uint!";
  W "nulbytestr";
  W "cstr";
  W "base32";
  W "base32>";
  W "base32hex";
  W "base32hex>";
  W "base64";
  W "base64>";
  W "zero85";
  W "zero85>"
].

Definition boot_heap : list cell :=
  [CInt 0; CBits (mkcbs 0 0 []); CInt 0; CVec []; CNil; CInt 0].

Definition ctx0 : ctx := mkctx 0 0 0 0 0 0 0 0 MEval.

Definition boot : state :=
  mkstate boot_dict boot_heap [] [] [] [] [] [] [] [] [] ctx0 [] 0%Z None None None None EmptyString None false.

(* fops with the conversions of F64c.v; the five binary operations and min/max are supplied
   by the caller (host doubles in the session driver, Flocq in the arithmetic stream) *)
From Xeh Require Import Model.F64c Model.Words.
Definition fops_with (add sub mul div rem mn mx : Z -> Z -> Z) : fops :=
  mkfops add sub mul div rem mn mx f64_of_int f64_to_int f64_round f32_to_f64 f64_to_f32.
