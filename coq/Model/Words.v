(* Words.v: the native words of /repo/src/{state,arith,istype,bitstr_ext}.rs as
   programs over the primitives of Vm.v.  A word changes the machine only through
   push_data / pop_data / swap_data / rot_data / over_data / set_var / loop_set_items
   / push_special / pop_special / print (the property C02 relies on this shape).

   Real arithmetic (+ - * / rem on reals, >real, >int, round, f32 conversions) is taken
   from a record [fops] so that this file does not depend on Flocq; F64.v provides the
   IEEE-754 instance used by the correspondence check. *)
From Xeh Require Import Model.Prelude Model.Bits Model.Codec Model.Cell Model.Lexer Model.Fmt Model.Vm Model.BaseN.
Local Notation length := List.length.
Local Open Scope Z_scope.

Record fops := mkfops {
  f_add : Z -> Z -> Z; f_sub : Z -> Z -> Z; f_mul : Z -> Z -> Z; f_div : Z -> Z -> Z; f_rem : Z -> Z -> Z;
  f_min : Z -> Z -> Z; f_max : Z -> Z -> Z;
  f_of_int : Z -> Z;            (* i128 as f64 *)
  f_to_int : Z -> Z;            (* f64 as i128 (saturating, NaN -> 0) *)
  f_round : Z -> Z;             (* f64::round *)
  f_of_f32 : Z -> Z;            (* f32 pattern -> f64 pattern (as f64) *)
  f_to_f32 : Z -> Z;            (* f64 pattern -> f32 pattern (as f32) *)
}.

(* heap slots of the bit-string module (allocation order of bitstr_ext::load) *)
Definition R_BIG : nat := 0.
Definition R_INPUT : nat := 1.
Definition R_OFFSET : nat := 2.
Definition R_STASH : nat := 3.
Definition R_OUTPUT : nat := 4.
Definition R_OUTLEN : nat := 5.

Definition cflag (b : bool) : cell := CFlag b.
Definition cint (z : Z) : cell := CInt z.
Definition cnat (n : nat) : cell := CInt (Z.of_nat n).

Definition type_not_supported {A} (c : cell) : M A := fail EType (Some c).

(* ---------- collections ---------- *)
Fixpoint pop_n (n : nat) : M unit :=
  match n with
  | O => ret tt
  | S m => let* _ := pop_data in pop_n m
  end.

(* vec_collect_till_ptr: [ptr] counts cells from the bottom of the stack *)
Definition vec_collect_till_ptr (ptr : nat) : M (list cell) :=
  let* s := get in
  let top := length (ds s) in
  if (top <? ptr)%nat then fail EFlow None
  else
    let v := rev (firstn (top - ptr) (ds s)) in
    pop_n (top - ptr) ;; ret v.

Fixpoint pairs_insert (l : list cell) (m : list (cell * cell)) : list (cell * cell) :=
  match l with
  | v :: k :: r => pairs_insert r (assoc_insert m k v)
  | _ => m
  end.

Definition map_collect_till_ptr (ptr : nat) : M (list (cell * cell)) :=
  let* s := get in
  let top := length (ds s) in
  if (top <? ptr)%nat then fail EFlow None
  else if negb ((top - ptr) mod 2 =? 0)%nat then fail EFlow None
  else
    let items := rev (firstn (top - ptr) (ds s)) in
    pop_n (top - ptr) ;; ret (pairs_insert items []).

Definition w_vec_begin : M unit := let* s := get in push_special (length (ds s)).
Definition w_vec_end : M unit :=
  let* p := pop_special in
  match p with
  | Some ptr => let* v := vec_collect_till_ptr ptr in push_data (CVec v)
  | None => fail EFlow None
  end.
Definition w_map_end : M unit :=
  let* p := pop_special in
  match p with
  | Some ptr => let* m := map_collect_till_ptr ptr in push_data (CMap m)
  | None => fail EFlow None
  end.
Definition w_with_tags : M unit :=
  let* t := pop_data in
  let* tm := m_map t in
  let* v := pop_data in
  push_data (with_tags v tm).
Definition w_tagmap_end : M unit := w_map_end ;; w_with_tags.

(* relative_index / slicing_index (after the D11 repair: unsigned_abs) *)
Definition relative_index (len : nat) (idx : Z) : option nat :=
  if idx <? 0 then
    let r := Z.abs idx in
    if Z.of_nat len <? r then None else Some (len - Z.to_nat r)%nat
  else if idx <? Z.of_nat len then Some (Z.to_nat idx) else None.

Definition slicing_index (idx : Z) (len : nat) : nat :=
  if idx <? 0 then (len - Z.to_nat (Z.min (Z.abs idx) (Z.of_nat len)))%nat
  else Z.to_nat (Z.min idx (Z.of_nat len)).

Definition vector_get (v : list cell) (idx : Z) : M cell :=
  match relative_index (length v) idx with
  | Some i => match nth_error v i with Some c => ret c | None => fail EBounds None end
  | None => fail EBounds None
  end.

(* characters of a UTF-8 string *)
Fixpoint utf8_chars (fuel : nat) (s : string) : list string :=
  match fuel with
  | O => []
  | S f => match take_char s with
           | None => []
           | Some (c, r) => c :: utf8_chars f r
           end
  end.
Definition str_chars (s : string) : list string := utf8_chars (String.length s) s.
Definition str_concat (l : list string) : string := fold_right String.append EmptyString l.

Definition slice_list {A} (l : list A) (st en : Z) : list A :=
  let len := length l in
  let a := slicing_index st len in
  let b := slicing_index en len in
  firstn (b - Nat.min a b) (skipn a l).

(* join_str_vec; nesting deeper than the fuel is outside the model *)
Fixpoint join_cells (fuel : nat) (sep : option string) (v : list cell) : option string :=
  match fuel with
  | O => None
  | S f =>
    let n := length v in
    (fix go (l : list cell) (k : nat) : option string :=
       match l with
       | [] => Some EmptyString
       | x :: r =>
         let piece :=
             match value x with
             | CVec v2 => join_cells f sep v2
             | CStr t => Some t
             | _ => format_cell x
             end in
         match piece, go r (S k) with
         | Some p, Some rest =>
           Some (String.append p
                   (match sep with
                    | Some sp => if (S k <? n)%nat then String.append sp rest else rest
                    | None => rest
                    end))
         | _, _ => None
         end
       end) v 0%nat
  end.
Definition join_str_vec (sep : option string) (v : list cell) : M string :=
  match join_cells 40 sep v with Some t => ret t | None => unsup end.

(* stable insertion sort by the total order: fold_right inserts the LAST element first, so an
   element goes in front of the elements it compares equal to *)
Fixpoint sort_insert (x : cell) (l : list cell) : list cell :=
  match l with
  | [] => [x]
  | y :: r => match cell_cmp x y with
              | Gt => y :: sort_insert x r
              | _ => x :: l
              end
  end.
Definition sort_cells (l : list cell) : list cell := fold_right sort_insert [] l.

(* ---------- core words ---------- *)
Definition w_equal : M unit :=
  let* a := pop_data in let* b := pop_data in push_data (cflag (cell_eqb a b)).
Definition w_is_nil : M unit :=
  let* a := pop_data in push_data (cflag (cell_eqb (value a) CNil)).

Definition active_loops (s : state) : list loopr := firstn (length (loops s) - ls_len (cx s)) (loops s).

Definition w_counter (n : nat) : M unit :=
  let* s := get in
  match nth_error (active_loops s) n with
  | None => fail ELoopUnderflow None
  | Some l =>
    let idx := l_start l in
    match value (l_items l) with
    | CNil => push_data (cint idx)
    | CMap m =>
      if (idx <? 0) || (Z.of_nat (length m) <=? idx) then fail EInternal None else
      match nth_error m (Z.to_nat idx) with
      | Some (k, v) => push_data k ;; push_data v
      | None => fail EInternal None
      end
    | CVec v =>
      if (idx <? 0) || (Z.of_nat (length v) <=? idx) then fail EInternal None else
      match nth_error v (Z.to_nat idx) with
      | Some x => push_data x
      | None => fail EInternal None
      end
    | other => type_not_supported other
    end
  end.

Definition w_length : M unit :=
  let* v := pop_data in
  match value v with
  | CVec l => push_data (cnat (length l))
  | CStr t => push_data (cnat (String.length t))
  | CBits b => push_data (cnat (clen b))
  | other => type_not_supported other
  end.

Definition w_nth : M unit :=
  let* i := pop_data in let* idx := m_isize i in
  let* c := pop_data in let* v := m_vec c in
  let* x := vector_get v idx in push_data x.

(* get / insert / remove after the D20 repair: the collection is looked at through value() *)
Definition w_get : M unit :=
  let* key := pop_data in
  let* c := pop_data in
  match value c with
  | CVec v =>
    let* idx := m_usize key in
    if Z.of_nat (length v) <=? idx then fail EBounds None else
    match nth_error v (Z.to_nat idx) with
    | Some x => push_data x
    | None => fail EBounds None
    end
  | CMap m => push_data (match assoc_find m key with Some x => x | None => CNil end)
  | other => type_not_supported other
  end.

Definition w_insert : M unit :=
  let* key := pop_data in
  let* val := pop_data in
  let* c := pop_data in
  match value c with
  | CMap m => push_data (CMap (assoc_insert m key val))
  | other => type_not_supported other
  end.

Definition w_remove : M unit :=
  let* key := pop_data in
  let* c := pop_data in
  match value c with
  | CMap m => push_data (CMap (assoc_remove m key))
  | other => type_not_supported other
  end.

Definition w_concat : M unit :=
  let* c := pop_data in let* v := m_vec c in
  let* t := join_str_vec None v in push_data (CStr t).
Definition w_join : M unit :=
  let* sp := pop_data in let* sep := m_str sp in
  let* c := pop_data in let* v := m_vec c in
  let* t := join_str_vec (Some sep) v in push_data (CStr t).
Definition w_sort : M unit :=
  let* c := pop_data in let* v := m_vec c in push_data (CVec (sort_cells v)).
Definition w_reverse : M unit :=
  let* c := pop_data in let* v := m_vec c in push_data (CVec (rev v)).
Definition w_push : M unit :=
  let* c := pop_data in let* v := m_vec c in
  let* x := pop_data in push_data (CVec (v ++ [x])).
Definition w_collect : M unit :=
  let* c := pop_data in let* n := m_usize c in
  let* s := get in
  if Z.of_nat (data_depth s) <? n then fail EUnderflow None
  else
    let* v := vec_collect_till_ptr (length (ds s) - Z.to_nat n) in
    push_data (CVec v).
Fixpoint push_all (l : list cell) : M unit :=
  match l with
  | [] => ret tt
  | x :: r => push_data x ;; push_all r
  end.
Definition w_unbox : M unit :=
  let* c := pop_data in let* v := m_vec c in push_all v.
Definition w_drop : M unit := let* _ := pop_data in ret tt.
Definition w_depth : M unit := let* s := get in push_data (cnat (data_depth s)).
Definition w_assert : M unit :=
  let* c := pop_data in let* b := m_cond c in if b then ret tt else fail EAssert None.
Definition w_assert_eq : M unit :=
  let* a := pop_data in let* b := pop_data in
  if cell_eqb a b then ret tt else fail EAssert (Some a).
Definition w_exit : M unit :=
  modify (fun s => set_stopping s true) ;;
  let* c := pop_data in let* code := m_isize c in fail EExit (Some (cint code)).

Definition m_format (c : cell) : M string :=
  match format_cell c with Some t => ret t | None => unsup end.

Fixpoint format_all (l : list cell) : option string :=
  match l with
  | [] => Some EmptyString
  | x :: r => match format_cell x, format_all r with
              | Some a, Some b => Some (String.append a (String (ascii_of_N 10) b))
              | _, _ => None
              end
  end.
Definition w_display_stack : M unit :=
  let* s := get in
  match format_all (ds s) with Some t => print t | None => unsup end.
Definition w_print : M unit := let* v := pop_data in let* t := m_format v in print t.
Definition w_newline : M unit := print (String (ascii_of_N 10) EmptyString).
Definition w_println : M unit := w_print ;; w_newline.

Fixpoint has_dot (s : string) : bool :=
  match s with
  | EmptyString => false
  | String c r => (byte_of c =? 46)%N || has_dot r
  end.
(* str>number after the D14 repair: a radix outside 2..=36 is a parse error *)
Definition w_str_to_num : M unit :=
  let* v := pop_data in
  let base := fl_base (match parse_fmt_flags v with Some f => f | None => fmt_default end) in
  let* t := m_str v in
  if has_dot t then unsup
  else if (base <? 2) || (36 <? base) then fail EParse None
  else match int_from_str_radix t (Z.to_N base) with
       | Some z => push_data (cint z)
       | None => fail EParse None
       end.

Definition w_slice : M unit :=
  let* e := pop_data in let* en := m_isize e in
  let* b := pop_data in let* st := m_isize b in
  let* c := pop_data in
  match value c with
  | CVec v => push_data (CVec (slice_list v st en))
  | CStr t => push_data (CStr (str_concat (slice_list (str_chars t) st en)))
  | _ => type_not_supported c
  end.

Definition w_tags : M unit :=
  let* v := pop_data in
  push_data (match tags_of v with Some t => CMap t | None => CNil end).
Definition w_insert_tag : M unit :=
  let* k := pop_data in let* v := pop_data in let* c := pop_data in push_data (insert_tag c k v).
Definition w_remove_tag : M unit :=
  let* k := pop_data in let* c := pop_data in push_data (remove_tag c k).
Definition w_get_tag : M unit :=
  let* k := pop_data in let* c := pop_data in
  push_data (match get_tag c k with Some x => x | None => CNil end).
Definition w_error : M unit := let* v := pop_data in fail EUser (Some v).

Definition w_foreach_init : M unit :=
  let* c := top_data in
  match value c with
  | CMap m => (if (length m =? 0)%nat then w_drop else ret tt) ;; push_data (cnat (length m)) ;; push_data (cint 0)
  | CVec v => (if (length v =? 0)%nat then w_drop else ret tt) ;; push_data (cnat (length v)) ;; push_data (cint 0)
  | other => type_not_supported other
  end.
Definition w_foreach_next : M unit :=
  let* s := get in
  match active_loops s with
  | [] => fail ELoopUnderflow None
  | l :: _ =>
    if l_start l =? 0 then (let* items := pop_data in loop_set_items items) else ret tt
  end.

(* let destructuring helpers *)
Definition w_let_map_begin : M unit := let* c := top_data in let* _ := m_map c in ret tt.
Definition w_let_map_end : M unit := let* c := pop_data in let* _ := m_map c in ret tt.
Definition w_let_map_lookup : M unit :=
  let* k := pop_data in let* c := top_data in let* m := m_map c in
  match assoc_find m k with Some v => push_data v | None => fail EFlow None end.
Definition w_let_vec_len : M unit :=
  let* c := pop_data in let* v := m_vec c in push_data (cnat (length v)).
Definition w_let_vec_any_len : M unit := let* c := pop_data in let* _ := m_vec c in ret tt.
Definition w_let_vec_at : M unit :=
  let* i := pop_data in let* idx := m_isize i in
  let* c := top_data in let* v := m_vec c in
  let* x := vector_get v idx in push_data x.
Definition w_let_vec_rest : M unit :=
  let* i := pop_data in let* n := m_usize i in
  let* c := top_data in let* v := m_vec c in
  push_data (CVec (skipn (Z.to_nat (Z.min n (Z.of_nat (length v)))) v)).

(* formatting-tag words *)
Definition flags_of (c : cell) : Z := match parse_fmt_flags c with Some f => f | None => fmt_default end.
Definition update_fmt_flags (f : Z) : M unit :=
  let* v := pop_data in push_data (insert_tag v fmt_tag_name (cint f)).
Definition w_fmt_base : M unit :=
  let* c := pop_data in let* n := m_usize c in
  let* t := top_data in
  let f := flags_of t in
  if fl_base f =? n then ret tt else update_fmt_flags (fl_set_base f n).
Definition w_fmt_bit (k : Z) : M unit :=
  let* c := pop_data in let* b := m_bool c in
  let* t := top_data in
  let f := flags_of t in
  if Bool.eqb (Z.testbit f k) b then ret tt else update_fmt_flags (fl_set_bit f k b).

(* ---------- arithmetic ---------- *)
Section Arith.
  Variable fo : fops.

  Definition num_type_error {A} (c : cell) : M A := fail EType (Some c).

  (* arithmetic_ops_real: dispatch on the RIGHT operand *)
  Definition arith_real (oi : Z -> Z -> M Z) (orl : Z -> Z -> Z) : M unit :=
    let* b := pop_data in
    let* a := pop_data in
    match value b with
    | CInt y => let* x := m_xint a in let* r := oi x y in push_data (cint r)
    | CReal y => let* x := m_real a in push_data (CReal (orl x y))
    | _ => num_type_error b
    end.

  Definition arith_int (oi : Z -> Z -> Z) : M unit :=
    let* b := pop_data in let* y := m_xint b in
    let* a := pop_data in let* x := m_xint a in
    push_data (cint (oi x y)).

  Definition wrapping (f : Z -> Z -> Z) (x y : Z) : M Z := ret (wrap128 (f x y)).

  Definition w_add := arith_real (wrapping Z.add) (f_add fo).
  Definition w_sub := arith_real (wrapping Z.sub) (f_sub fo).
  Definition w_mul := arith_real (wrapping Z.mul) (f_mul fo).
  (* / and rem after the D9 repair *)
  Definition w_div : M unit :=
    let* b := pop_data in
    let* a := pop_data in
    match value b with
    | CInt y =>
      let* x := m_xint a in
      if y =? 0 then fail EDivZero None
      else let q := Z.quot x y in
           if in_i128 q then push_data (cint q) else fail EOverflow None
    | CReal y =>
      let* x := m_real a in
      if f64_is_zero y then fail EDivZero None else push_data (CReal (f_div fo x y))
    | _ => num_type_error b
    end.
  Definition w_rem : M unit :=
    arith_real (fun x y => if y =? 0 then fail EDivZero None else ret (wrap128 (Z.rem x y))) (f_rem fo).
  Definition w_neg : M unit :=
    let* a := pop_data in
    match value a with
    | CInt x => if in_i128 (- x) then push_data (cint (- x)) else fail EOverflow None
    | CReal r => push_data (CReal (Z.lxor r (2 ^ 63)))
    | _ => num_type_error a
    end.
  Definition w_abs : M unit :=
    let* a := pop_data in
    match value a with
    | CInt x => if in_i128 (Z.abs x) then push_data (cint (Z.abs x)) else fail EOverflow None
    | CReal r => push_data (CReal (r mod 2 ^ 63))
    | _ => num_type_error a
    end.

  (* compare_cells *)
  Definition compare_cells : M comparison :=
    let* b := pop_data in
    let* a := pop_data in
    match value b with
    | CInt y => let* x := m_xint a in ret (x ?= y)
    | CReal y => let* x := m_real a in
                 ret (match f64_pcmp x y with Some c => c | None => Eq end)
    | _ => num_type_error b
    end.
  Definition w_cmp (f : comparison -> bool) : M unit :=
    let* c := compare_cells in push_data (cflag (f c)).

  Definition w_min := arith_real (fun x y => ret (Z.min x y)) (f_min fo).
  Definition w_max := arith_real (fun x y => ret (Z.max x y)) (f_max fo).

  Definition w_logic (f : bool -> bool -> bool) : M unit :=
    let* b := pop_data in let* a := pop_data in
    let* x := m_bool a in let* y := m_bool b in push_data (cflag (f x y)).
  Definition w_not : M unit := let* a := pop_data in let* x := m_bool a in push_data (cflag (negb x)).

  (* bitwise words on i128: two's complement semantics of Z.land etc. coincide *)
  Definition shl128 (a b : Z) : Z := wrap128 (Z.shiftl a ((b mod two64) mod 128)).
  Definition shr128 (a b : Z) : Z := Z.shiftr a ((b mod two64) mod 128).
  Definition w_bnot : M unit := let* a := pop_data in let* x := m_xint a in push_data (cint (Z.lnot x)).
  Definition popcount (x : Z) : Z :=
    let u := x mod two128 in
    fold_left (fun acc i => if Z.testbit u (Z.of_nat i) then acc + 1 else acc) (seq 0 128) 0.
  Definition w_popcnt : M unit := let* a := pop_data in let* x := m_xint a in push_data (cint (popcount x)).

  Definition w_into_real : M unit :=
    let* t := top_data in
    match value t with
    | CReal _ => ret tt
    | _ => let* a := pop_data in let* x := m_xint a in push_data (CReal (f_of_int fo x))
    end.
  Definition w_into_int : M unit :=
    let* t := top_data in
    match value t with
    | CInt _ => ret tt
    | _ => let* a := pop_data in let* x := m_real a in push_data (cint (f_to_int fo x))
    end.
  Definition w_round : M unit :=
    let* a := pop_data in let* x := m_real a in push_data (CReal (f_round fo x)).

  (* zero? positive? negative? after the D16 repair: the popped value is reported *)
  Definition w_sign_test (fi : Z -> bool) (fr : Z -> bool) : M unit :=
    let* a := pop_data in
    match value a with
    | CInt x => push_data (cflag (fi x))
    | CReal r => push_data (cflag (fr r))
    | _ => num_type_error a
    end.
  Definition f64_pos (r : Z) : bool := negb (f64_is_nan r) && (0 <? f64_key r).
  Definition f64_negv (r : Z) : bool := negb (f64_is_nan r) && (f64_key r <? 0).

  (* ---------- type tests ---------- *)
  Definition w_is (f : cell -> bool) : M unit := let* a := pop_data in push_data (cflag (f (value a))).

  (* ---------- bit-string module ---------- *)
  Definition current_input : M cbs := let* c := get_var R_INPUT in m_bits c.
  Definition current_offset : M Z := let* c := get_var R_OFFSET in m_usize c.
  Definition current_big : M bool :=
    let* c := get_var R_BIG in ret (negb (cell_eqb c (cint 0))).
  Definition current_order : M order := let* b := current_big in ret (if b then Big else Little).

  Definition move_offset_checked (pos : Z) : M unit :=
    let* s := current_input in
    if (Z.of_nat (cstart s) <=? pos) && (pos <=? Z.of_nat (cend s))
    then set_var R_OFFSET (cint pos)
    else fail ESeek None.

  (* the reading words push first and move afterwards (repair of the stack-limit defect);
     peek_bits after the D12 repair: start + n is checked *)
  Definition peek_bits (n : Z) : M cbs :=
    let* s := current_input in
    let* start := current_offset in
    let e := start + n in
    if (start <=? e) && (Z.of_nat (cstart s) <=? start) && (e <=? Z.of_nat (cend s))
    then ret (mkcbs (Z.to_nat start) (Z.to_nat e) (cdata s))
    else fail ERead None.

  Definition rest_bits : M cbs :=
    let* s := current_input in
    let* start := current_offset in
    if (Z.of_nat (cstart s) <=? start) && (start <=? Z.of_nat (cend s))
    then ret (mkcbs (Z.to_nat start) (cend s) (cdata s))
    else fail EBounds None.

  Definition len_lit : cell := CStr "len".
  Definition big_lit : cell := CStr "big".
  Definition offset_lit : cell := CStr "offset".
  Definition num_tags (b : cbs) (o : order) : list (cell * cell) :=
    let m := assoc_insert [] len_lit (cnat (clen b)) in
    match o with Big => assoc_insert m big_lit (CFlag true) | Little => m end.

  Definition read_bits (n : Z) : M unit :=
    let* s := peek_bits n in
    push_data (CBits s) ;; move_offset_checked (Z.of_nat (cend s)).
  Definition read_unsigned (n : Z) (o : order) : M unit :=
    let* s := peek_bits n in
    if (127 <? clen s)%nat then fail EOverflow None
    else
      let x := to_uint o s in
      push_data (with_tags (cint x) (num_tags s o)) ;;
      move_offset_checked (Z.of_nat (cend s)).
  Definition read_signed (n : Z) (o : order) : M unit :=
    let* s := peek_bits n in
    if (128 <? clen s)%nat then fail EOverflow None
    else
      let x := to_int o s in
      push_data (with_tags (cint x) (num_tags s o)) ;;
      move_offset_checked (Z.of_nat (cend s)).
  Definition read_float (n : Z) (o : order) : M unit :=
    let* s := peek_bits n in
    if n =? 32 then
      push_data (with_tags (CReal (f_of_f32 fo (to_fbits 4 o s))) (num_tags s o)) ;;
      move_offset_checked (Z.of_nat (cend s))
    else if n =? 64 then
      push_data (with_tags (CReal (to_fbits 8 o s)) (num_tags s o)) ;;
      move_offset_checked (Z.of_nat (cend s))
    else fail EFloatLen None.

  (* widths the packing words accept without risking an allocation failure *)
  Definition pack_limit : Z := 1048576.
  Definition pack_int (n : Z) (o : order) : M unit :=
    let* c := pop_data in let* v := m_xint c in
    if pack_limit <? n then unsup
    else push_data (CBits (from_int v (Z.to_nat n) o)).
  Definition pack_float (n : Z) (o : order) : M unit :=
    let* c := pop_data in let* v := m_real c in
    if n =? 32 then push_data (CBits (from_fbits 4 o (f_to_f32 fo v)))
    else if n =? 64 then push_data (CBits (from_fbits 8 o v))
    else fail EFloatLen None.

  Definition with_order (f : order -> M unit) : M unit := let* o := current_order in f o.
  Definition with_size (f : Z -> M unit) : M unit := let* c := pop_data in let* n := m_usize c in f n.

  Definition w_open_bitstr : M unit :=
    let* c := pop_data in let* s := m_bits c in
    let* old_offset := get_var R_OFFSET in
    let* old_input := get_var R_INPUT in
    set_var R_OFFSET (cnat (cstart s)) ;;
    set_var R_INPUT (CBits s) ;;
    let* st := get_var R_STASH in
    let* v := m_vec st in
    set_var R_STASH (CVec (v ++ [insert_tag old_input offset_lit old_offset])).

  Definition w_close_bitstr : M unit :=
    let* st := get_var R_STASH in
    let* v := m_vec st in
    match rev v with
    | [] => fail EBounds None
    | last :: r =>
      let offset := match get_tag last offset_lit with Some o => o | None => cint 0 end in
      set_var R_OFFSET offset ;;
      set_var R_INPUT (value last) ;;
      set_var R_STASH (CVec (rev r))
    end.

  Definition w_units (k : Z) : M unit := with_size (fun n => push_data (cint (n * k))).
  Definition w_seek : M unit := with_size move_offset_checked.
  Definition w_remain : M unit :=
    let* s := current_input in
    let* off := current_offset in
    push_data (cint (Z.max (Z.of_nat (cend s)) off - off)).

  (* memmem::find on byte lists: index of the first occurrence *)
  Fixpoint prefix_eqb (p l : list N) : bool :=
    match p, l with
    | [], _ => true
    | x :: p', y :: l' => (x =? y)%N && prefix_eqb p' l'
    | _, [] => false
    end.
  Fixpoint find_bytes (p l : list N) (i : nat) : option nat :=
    if prefix_eqb p l then Some i
    else match l with
         | [] => None
         | _ :: r => find_bytes p r (S i)
         end.
  Definition w_find : M unit :=
    let* c := pop_data in let* pat := m_bits c in
    let* rest := rest_bits in
    match bytestr pat with
    | None => fail EToBytestr None
    | Some pb =>
      match slice rest with
      | None => fail ESlice None
      | Some rb =>
        match find_bytes pb rb 0%nat with
        | Some pos => push_data (cnat (cstart rest + pos * 8))
        | None => push_data CNil
        end
      end
    end.

  Definition w_bitstr_len : M unit :=
    let* c := pop_data in let* b := m_bits c in push_data (cnat (clen b)).
  Definition w_bitstr_append : M unit :=
    let* h := pop_data in let* head := m_bits h in
    let* t := pop_data in let* tail := m_bits t in
    push_data (CBits (Bits.append false head tail)).
  Definition w_bitstr_not : M unit :=
    let* c := pop_data in let* b := m_bits c in push_data (CBits (invert false b)).

  (* zip with the right operand cycled *)
  Fixpoint zip_cycle (fuel : nat) (f : N -> N -> N) (a : list N) (b cur : list N) : list N :=
    match fuel with
    | O => []
    | S fu =>
      match a with
      | [] => []
      | x :: a' =>
        match cur with
        | y :: cur' => f x y :: zip_cycle fu f a' b cur'
        | [] => match b with
                | [] => []
                | y :: b' => f x y :: zip_cycle fu f a' b b'
                end
        end
      end
    end.
  Definition w_bitstr_zip (f : N -> N -> N) : M unit :=
    let* cb := pop_data in let* sb := m_bits cb in
    let* ca := pop_data in let* sa := m_bits ca in
    push_data (CBits (from_bits (zip_cycle (S (clen sa)) f (bits sa) (bits sb) (bits sb)))).

  Fixpoint hex_digits_of (s : string) (pos : nat) : option (list N) :=
    match s with
    | EmptyString => Some []
    | String c r =>
      if is_ws c then hex_digits_of r (S pos)
      else match hex_digit c with
           | Some d => match hex_digits_of r (S pos) with Some l => Some (d :: l) | None => None end
           | None => None
           end
    end.
  Definition w_hex_to_bitstr : M unit :=
    let* c := pop_data in let* t := m_str c in
    match hex_digits_of t 0 with
    | Some ds => push_data (CBits (from_hex ds))
    | None => fail EParse None
    end.
  Definition hex_string (ds : list N) : string :=
    fold_right (fun d acc => String (digit_char false d) acc) EmptyString ds.
  Definition w_bitstr_to_hex : M unit :=
    let* c := pop_data in let* b := m_bits c in push_data (CStr (hex_string (to_hex_digits b))).

  Definition bytes_of_string (s : string) : list N :=
    (fix go (s : string) := match s with EmptyString => [] | String c r => byte_of c :: go r end) s.

  (* bitstr_concat (>bitstr) *)
  Fixpoint bitstr_concat_vec (fuel : nat) (v : list cell) (acc : cbs) : outcome (cbs) * option cell :=
    match fuel with
    | O => (Panic, None)
    | S f =>
      (fix go (v : list cell) (acc : cbs) : outcome cbs * option cell :=
         match v with
         | [] => (Ok acc, None)
         | x :: r =>
           match value x with
           | CInt i => if (0 <=? i) && (i <=? 255)
                       then go r (Bits.append false acc (from_bytes [Z.to_N i]))
                       else (Err EOverflow, None)
           | CStr t => go r (Bits.append false acc (from_bytes (bytes_of_string t)))
           | CBits b => go r (Bits.append false acc b)
           | CVec v2 =>
             match bitstr_concat_vec f v2 (mkcbs 0 0 []) with
             | (Ok b2, _) => go r (Bits.append false acc b2)
             | e => e
             end
           | other => (Err EType, Some other)
           end
         end) v acc
    end.
  Definition bitstr_concat (c : cell) : M cbs :=
    match value c with
    | CStr t => ret (from_bytes (bytes_of_string t))
    | CVec v =>
      match bitstr_concat_vec 40 v (mkcbs 0 0 []) with
      | (Ok b, _) => ret b
      | (Err k, p) => fail k p
      | (Panic, _) => unsup
      end
    | CBits b => ret b
    | other => type_not_supported other
    end.
  Definition into_bitstr : M cbs := let* c := pop_data in bitstr_concat c.
  Definition w_into_bitstr : M unit := let* b := into_bitstr in push_data (CBits b).

  Definition w_set_order (big : bool) : M unit := set_var R_BIG (cint (if big then 1 else 0)).

  Definition w_magic : M unit :=
    let* c := pop_data in let* pat := m_bits c in
    let* s := peek_bits (Z.of_nat (clen pat)) in
    if negb (eq_with s pat) then fail EMatch None
    else push_data (CBits s) ;; move_offset_checked (Z.of_nat (cend s)).

  Definition w_emit : M unit :=
    let* c := pop_data in let* bs := m_bits c in
    let* old := get_var R_OUTLEN in
    let* n := m_usize old in
    set_var R_OUTLEN (cint (n + Z.of_nat (clen bs))) ;;
    let* o := get_var R_OUTPUT in
    if cell_eqb o CNil then unsup      (* bytes go to the process's stdout *)
    else let* ob := m_bits o in set_var R_OUTPUT (CBits (Bits.append false ob bs)).

  (* nulbytestr_read *)
  Fixpoint nul_len (l : list (N * nat)) (acc : nat) : nat :=
    match l with
    | [] => acc
    | (x, n) :: r => if (x =? 0)%N then (acc + n)%nat else nul_len r (acc + n)%nat
    end.
  Definition nulbytestr_read : M cbs :=
    let* s := rest_bits in
    if negb (is_bytestr s) then fail EToBytestr None
    else
      let len := nul_len (iter8 s) 0%nat in
      let ss := mkcbs (cstart s) (cstart s + len) (cdata s) in
      ret ss.
  Definition w_nulbytestr : M unit :=
    let* b := nulbytestr_read in push_data (CBits b) ;; move_offset_checked (Z.of_nat (cend b)).
  (* char::from_u32 of a byte, UTF-8 encoded *)
  Definition latin1_utf8 (x : N) : string :=
    if (x <? 128)%N then String (ascii_of_N x) EmptyString
    else String (ascii_of_N (192 + N.shiftr x 6)) (String (ascii_of_N (128 + N.land x 63)) EmptyString).
  Fixpoint cstr_chars (l : list (N * nat)) : string :=
    match l with
    | [] => EmptyString
    | (x, _) :: r => if (x =? 0)%N then EmptyString else String.append (latin1_utf8 x) (cstr_chars r)
    end.
  Definition w_cstr : M unit :=
    let* b := nulbytestr_read in push_data (CStr (cstr_chars (iter8 b))) ;; move_offset_checked (Z.of_nat (cend b)).

  (* ---------- dump / dump-at (word_dump, word_dump_at, dump_bitstr_at, fmt_bitstr_dump) ---------- *)
  Fixpoint rep_char (n : nat) (c : ascii) : string :=
    match n with O => EmptyString | S k => String c (rep_char k c) end.
  (* {:0Wx} of a non-negative number *)
  Definition hex_w (w : nat) (z : Z) : string :=
    let d := digits 16 false z in String.append (rep_char (w - String.length d) "0"%char) d.
  (* write_dump_position: byte position in 5 hex digits, then ",bit" inside a byte *)
  Definition dump_position (pos : nat) : string :=
    String.append (hex_w 5 (Z.of_nat (pos / 8)))
      (if (0 <? pos mod 8)%nat then String ","%char (digits 10 false (Z.of_nat (pos mod 8))) else EmptyString).
  (* byte_to_dump_char: is_ascii_graphic is U+0021 ..= U+007E *)
  Definition dump_char (x : N) : ascii :=
    if ((33 <=? x) && (x <=? 126))%N then ascii_of_N x else "."%char.
  (* one row: up to ncols groups of the iterator; (hex columns, padding, ascii column, new position, rest) *)
  Fixpoint dump_row (ncols pos : nat) (it : list (N * nat))
    : string * string * string * nat * list (N * nat) :=
    match ncols with
    | O => (EmptyString, EmptyString, EmptyString, pos, it)
    | S k =>
      match it with
      | (x, nb) :: r =>
        let '(b, h, a, p, i) := dump_row k (pos + nb) r in
        (String " "%char (String.append (hex_w 2 (Z.of_N x)) b), h, String (dump_char x) a, p, i)
      | [] =>
        let '(b, h, a, p, i) := dump_row k pos [] in
        (b, String " "%char (String " "%char h), String " "%char a, p, i)
      end
    end.
  (* the `while pos < s.end()` loop; fuel exhaustion = the Rust loop would not end *)
  Fixpoint dump_lines (fuel pos e : nat) (it : list (N * nat)) : option string :=
    match fuel with
    | O => None
    | S f =>
      if (pos <? e)%nat then
        let '(b, h, a, p, i) := dump_row 8 pos it in
        match dump_lines f p e i with
        | Some rest =>
          Some (String.append (dump_position pos)
                 (String ":"%char (String.append b (String.append h
                   (String " "%char (String " "%char (String.append a (String (ascii_of_N 10) rest))))))))
        | None => None
        end
      else Some EmptyString
    end.
  Definition fmt_bitstr_dump (s : cbs) : option string :=
    dump_lines (S (clen s)) (cstart s) (cend s) (iter8 s).
  Definition dump_window : Z := 1024.    (* 16 rows * 8 columns * 8 bits *)
  (* dump_bitstr_at after the D26 repair: start.saturating_add(window) *)
  Definition dump_bitstr_at (start : Z) : M unit :=
    let* s := current_input in
    let e := Z.min (Z.of_nat (cend s)) (Z.min (start + dump_window) (two64 - 1)) in
    if (start <=? e) && (Z.of_nat (cstart s) <=? start) && (e <=? Z.of_nat (cend s))
    then match fmt_bitstr_dump (mkcbs (Z.to_nat start) (Z.to_nat e) (cdata s)) with
         | Some t => print t
         | None => unsup
         end
    else fail EBounds None.
  Definition w_dump_at : M unit := with_size dump_bitstr_at.
  Definition w_dump : M unit := let* start := current_offset in dump_bitstr_at start.

  (* ---------- bitstr>utf8 (String::from_utf8: the Unicode well-formedness table) ---------- *)
  Definition u8_cont (x : N) : bool := ((128 <=? x) && (x <=? 191))%N.
  Fixpoint utf8_valid (l : list N) : bool :=
    match l with
    | [] => true
    | a :: r =>
      if (a <? 128)%N then utf8_valid r
      else if ((194 <=? a) && (a <=? 223))%N then
        match r with b :: r1 => u8_cont b && utf8_valid r1 | _ => false end
      else if ((224 <=? a) && (a <=? 239))%N then
        match r with
        | b :: c :: r2 =>
          (if (a =? 224)%N then ((160 <=? b) && (b <=? 191))%N
           else if (a =? 237)%N then ((128 <=? b) && (b <=? 159))%N
           else u8_cont b) && u8_cont c && utf8_valid r2
        | _ => false
        end
      else if ((240 <=? a) && (a <=? 244))%N then
        match r with
        | b :: c :: d :: r3 =>
          (if (a =? 240)%N then ((144 <=? b) && (b <=? 191))%N
           else if (a =? 244)%N then ((128 <=? b) && (b <=? 143))%N
           else u8_cont b) && u8_cont c && u8_cont d && utf8_valid r3
        | _ => false
        end
      else false
    end.
  Definition string_of_bytes (l : list N) : string :=
    fold_right (fun c acc => String (ascii_of_N c) acc) EmptyString l.
  Definition w_bitstr_to_utf8 : M unit :=
    let* c := pop_data in let* b := m_bits c in
    match bytestr b with
    | None => fail EToBytestr None
    | Some bytes => if utf8_valid bytes then push_data (CStr (string_of_bytes bytes)) else fail EParse None
    end.

  (* ---------- text encodings (base_ext.rs) ---------- *)
  Definition string_of_codes (l : list N) : string :=
    fold_right (fun c acc => String (ascii_of_N c) acc) EmptyString l.

  Definition w_encode (enc : list N -> list N) : M unit :=
    let* bs := into_bitstr in
    match bytestr bs with
    | None => fail EToBytestr None
    | Some bytes => push_data (CStr (string_of_codes (enc bytes)))
    end.

  (* the decoders turn EVERY failure of their body (bad text, wrong type, empty stack) into nil *)
  Definition w_decode (dec : list N -> option (list N)) : M unit :=
    let* s := get in
    if (ds_len (cx s) <? length (ds s))%nat then
      let* c := pop_data in
      match value c with
      | CStr t =>
        match dec (bytes_of_string t) with
        | Some bytes => push_data (CBits (from_bytes bytes))
        | None => push_data CNil
        end
      | _ => push_data CNil
      end
    else push_data CNil.
End Arith.

(* ---------- the table of native words ---------- *)
Local Open Scope string_scope.

Definition is_lt c := match c with Lt => true | _ => false end.
Definition is_le c := match c with Gt => false | _ => true end.
Definition is_gt c := match c with Gt => true | _ => false end.
Definition is_ge c := match c with Lt => false | _ => true end.
Definition is_eq c := match c with Eq => true | _ => false end.
Definition is_ne c := match c with Eq => false | _ => true end.

Definition sized_word (fo : fops) (name : string) : option (M unit) :=
  (* uN iN fN families: name = kind ++ size ++ order-suffix ++ optional "!" *)
  let rd_u n := Some (with_order (read_unsigned n)) in
  let rd_i n := Some (with_order (read_signed n)) in
  let pk n := Some (with_order (pack_int n)) in
  let go (k : string) (n : Z) : option (M unit) :=
      if String.eqb name ("u" ++ k) then rd_u n
      else if String.eqb name ("u" ++ k ++ "le") then Some (read_unsigned n Little)
      else if String.eqb name ("u" ++ k ++ "be") then Some (read_unsigned n Big)
      else if String.eqb name ("i" ++ k) then rd_i n
      else if String.eqb name ("i" ++ k ++ "le") then Some (read_signed n Little)
      else if String.eqb name ("i" ++ k ++ "be") then Some (read_signed n Big)
      else if String.eqb name ("u" ++ k ++ "!") || String.eqb name ("i" ++ k ++ "!") then pk n
      else if String.eqb name ("u" ++ k ++ "le!") || String.eqb name ("i" ++ k ++ "le!") then Some (pack_int n Little)
      else if String.eqb name ("u" ++ k ++ "be!") || String.eqb name ("i" ++ k ++ "be!") then Some (pack_int n Big)
      else None in
  let gof (k : string) (n : Z) : option (M unit) :=
      if String.eqb name ("f" ++ k) then Some (with_order (read_float fo n))
      else if String.eqb name ("f" ++ k ++ "le") then Some (read_float fo n Little)
      else if String.eqb name ("f" ++ k ++ "be") then Some (read_float fo n Big)
      else if String.eqb name ("f" ++ k ++ "!") then Some (with_order (pack_float fo n))
      else if String.eqb name ("f" ++ k ++ "le!") then Some (pack_float fo n Little)
      else if String.eqb name ("f" ++ k ++ "be!") then Some (pack_float fo n Big)
      else None in
  match go "8" 8%Z with Some w => Some w | None =>
  match go "16" 16%Z with Some w => Some w | None =>
  match go "32" 32%Z with Some w => Some w | None =>
  match go "64" 64%Z with Some w => Some w | None =>
  match gof "32" 32%Z with Some w => Some w | None => gof "64" 64%Z
  end end end end end.

Definition word_table (fo : fops) : list (string * M unit) := [
  ("equal?", w_equal); ("nil?", w_is_nil);
  ("I", w_counter 0); ("J", w_counter 1); ("K", w_counter 2);
  ("length", w_length); ("nth", w_nth); ("get", w_get); ("concat", w_concat); ("join", w_join);
  ("sort", w_sort); ("reverse", w_reverse); ("push", w_push); ("collect", w_collect); ("unbox", w_unbox);
  ("dup", dup_data); ("drop", w_drop); ("swap", swap_data); ("rot", rot_data); ("over", over_data);
  ("depth", w_depth); ("assert", w_assert); ("assert-eq", w_assert_eq); ("exit", w_exit);
  (".s", w_display_stack); ("println", w_println); ("print", w_print); ("newline", w_newline);
  ("str>number", w_str_to_num); ("slice", w_slice); ("insert", w_insert); ("remove", w_remove);
  ("tags", w_tags); ("with-tags", w_with_tags); ("insert-tag", w_insert_tag); ("remove-tag", w_remove_tag);
  ("get-tag", w_get_tag); ("error", w_error);
  ("%vec-begin", w_vec_begin); ("%vec-end", w_vec_end); ("%map-begin", w_vec_begin); ("%map-end", w_map_end);
  ("%tagmap-end", w_tagmap_end); ("%foreach-init", w_foreach_init); ("%foreach-next", w_foreach_next);
  ("%let-map-begin", w_let_map_begin); ("%let-map-end", w_let_map_end); ("%let-map-lookup", w_let_map_lookup);
  ("%let-vec-len", w_let_vec_len); ("%let-vec-any-len", w_let_vec_any_len); ("%let-vec-at", w_let_vec_at);
  ("%let-vec-rest", w_let_vec_rest);
  ("%fmt-base", w_fmt_base); ("%fmt-prefix", w_fmt_bit 8); ("%fmt-tags", w_fmt_bit 9); ("%fmt-upcase", w_fmt_bit 11);
  ("+", w_add fo); ("-", w_sub fo); ("*", w_mul fo); ("/", w_div fo); ("rem", w_rem fo);
  ("neg", w_neg); ("abs", w_abs);
  ("<", w_cmp is_lt); ("<=", w_cmp is_le); (">", w_cmp is_gt); (">=", w_cmp is_ge); ("==", w_cmp is_eq); ("<>", w_cmp is_ne);
  ("and", w_logic andb); ("or", w_logic orb); ("xor", w_logic xorb); ("not", w_not);
  ("band", arith_int Z.land); ("bor", arith_int Z.lor); ("bxor", arith_int Z.lxor); ("bnot", w_bnot);
  ("bsl", arith_int shl128); ("bsr", arith_int shr128);
  ("round", w_round fo); ("min", w_min fo); ("max", w_max fo); (">real", w_into_real fo); (">int", w_into_int fo);
  ("zero?", w_sign_test (Z.eqb 0) f64_is_zero);
  ("positive?", w_sign_test (Z.ltb 0) f64_pos); ("negative?", w_sign_test (fun x => Z.ltb x 0) f64_negv);
  ("popcnt", w_popcnt);
  ("bool?", w_is (fun c => match c with CFlag _ => true | _ => false end));
  ("int?", w_is (fun c => match c with CInt _ => true | _ => false end));
  ("real?", w_is (fun c => match c with CReal _ => true | _ => false end));
  ("str?", w_is (fun c => match c with CStr _ => true | _ => false end));
  ("bitstr?", w_is (fun c => match c with CBits _ => true | _ => false end));
  ("vec?", w_is (fun c => match c with CVec _ => true | _ => false end));
  ("open-bitstr", w_open_bitstr); ("close-bitstr", w_close_bitstr);
  (">b", w_units 8); (">kb", w_units 8192); (">mb", w_units 8388608);
  ("seek", w_seek); ("remain", w_remain); ("find", w_find);
  ("dump", w_dump); ("dump-at", w_dump_at); ("bitstr>utf8", w_bitstr_to_utf8);
  ("bits", with_size read_bits); ("bytes", with_size (fun n => read_bits (n * 8)));
  ("bitstr-len", w_bitstr_len); ("bitstr-append", w_bitstr_append); ("bitstr-not", w_bitstr_not);
  ("bitstr-and", w_bitstr_zip N.land); ("bitstr-or", w_bitstr_zip N.lor); ("bitstr-xor", w_bitstr_zip N.lxor);
  ("hex>bitstr", w_hex_to_bitstr); ("bitstr>hex", w_bitstr_to_hex); (">bitstr", w_into_bitstr);
  ("big", w_set_order true); ("little", w_set_order false); ("magic", w_magic); ("emit", w_emit);
  ("float", with_size (fun n => with_order (read_float fo n)));
  ("float!", with_size (fun n => with_order (pack_float fo n)));
  ("int", with_size (fun n => with_order (read_signed n)));
  ("uint", with_size (fun n => with_order (read_unsigned n)));
  ("int!", with_size (fun n => with_order (pack_int n)));
  ("uint!", with_size (fun n => with_order (pack_int n)));
  ("nulbytestr", w_nulbytestr); ("cstr", w_cstr);
  ("base32", w_encode (b32_encode Rfc4648)); ("base32>", w_decode (b32_decode Rfc4648));
  ("base32hex", w_encode (b32_encode Crockford)); ("base32hex>", w_decode (b32_decode Crockford));
  ("base64", w_encode b64_encode); ("base64>", w_decode b64_decode);
  ("zero85", w_encode z85_encode); ("zero85>", w_decode z85_decode)
].

Fixpoint table_find (t : list (string * M unit)) (name : string) : option (M unit) :=
  match t with
  | [] => None
  | (n, w) :: r => if String.eqb n name then Some w else table_find r name
  end.

Definition native_fn (fo : fops) : natives := fun name =>
  match table_find (word_table fo) name with
  | Some w => Some w
  | None => sized_word fo name
  end.
