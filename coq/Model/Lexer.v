(* Lexer.v: mirror of /repo/src/lex.rs (Lex::next, next_nonws, token_location).
   A source is a UTF-8 byte string; positions are byte offsets, as in the Rust code.
   All characters the lexer distinguishes are ASCII except the two curly quotes, and
   UTF-8 is self-synchronising, so scanning loops run byte by byte. *)
From Xeh Require Import Model.Prelude Model.Bits Model.Cell.
Local Open Scope string_scope.

Definition byte_of (a : ascii) : N := N_of_ascii a.

Definition is_ws (a : ascii) : bool :=
  let n := byte_of a in
  (n =? 32)%N || (n =? 9)%N || (n =? 10)%N || (n =? 12)%N || (n =? 13)%N.

Definition is_digit (a : ascii) : bool :=
  let n := byte_of a in (48 <=? n)%N && (n <=? 57)%N.

(* width of the UTF-8 character starting with this lead byte *)
Definition utf8_width (a : ascii) : nat :=
  let n := byte_of a in
  if (n <? 128)%N then 1 else if (n <? 224)%N then 2 else if (n <? 240)%N then 3 else 4.

Fixpoint str_take (n : nat) (s : string) : string :=
  match n, s with
  | S m, String c r => String c (str_take m r)
  | _, _ => ""
  end.
Fixpoint str_drop (n : nat) (s : string) : string :=
  match n, s with
  | S m, String _ r => str_drop m r
  | _, _ => s
  end.

(* take_char: the bytes of the next character and the rest *)
Definition take_char (s : string) : option (string * string) :=
  match s with
  | "" => None
  | String c _ => let w := utf8_width c in Some (str_take w s, str_drop w s)
  end.

(* value of a digit character in radix <= 36, as char::to_digit *)
Definition digit_val (a : ascii) : option N :=
  let n := byte_of a in
  if (48 <=? n)%N && (n <=? 57)%N then Some (n - 48)%N
  else if (97 <=? n)%N && (n <=? 122)%N then Some (n - 87)%N
  else if (65 <=? n)%N && (n <=? 90)%N then Some (n - 55)%N
  else None.

Definition hex_digit (a : ascii) : option N :=
  match digit_val a with
  | Some v => if (v <? 16)%N then Some v else None
  | None => None
  end.

(* i128::from_str_radix: optional sign, at least one digit, range check *)
Fixpoint digits_val (radix : N) (s : string) (acc : Z) : option Z :=
  match s with
  | "" => Some acc
  | String c r =>
    match digit_val c with
    | Some v => if (v <? radix)%N then digits_val radix r (acc * Z.of_N radix + Z.of_N v)%Z else None
    | None => None
    end
  end.

Definition int_from_str_radix (s : string) (radix : N) : option Z :=
  let '(neg, body) :=
      match s with
      | String "-" r => (true, r)
      | String "+" r => (false, r)
      | _ => (false, s)
      end in
  match body with
  | "" => None
  | _ =>
    match digits_val radix body 0%Z with
    | Some m => let v := if neg then (- m)%Z else m in
                if in_i128 v then Some v else None
    | None => None
    end
  end.

(* tokens *)
Inductive perr :=
| PUntermStr | PEscape | PExpectWs | PUntermBits | PBits | PUntermComment | PFloat | PInt.

Inductive tok :=
| TEnd
| TWord (s : string)
| TWs
| TComment
| TLit (c : cell)
| TReal (text : string)   (* a real literal: the cleaned text handed to str::parse::<f64> *)
| TErr (e : perr) (es ee : nat). (* parse error with the byte range of its substr *)

(* lexer state: the unread rest of the buffer, its position, the start of the last token *)
Record lexst := mklex { lrest : string; lpos : nat; lstart : nat; llen : nat }.

Definition lex_new (s : string) : lexst := mklex s 0 0 (String.length s).

(* --- whitespace run --- *)
Fixpoint skip_ws (s : string) (n : nat) : string * nat :=
  match s with
  | String c r => if is_ws c then skip_ws r (S n) else (s, n)
  | "" => (s, n)
  end.

(* --- string literal body; [pos] is the position of the head of [s] --- *)
Definition ldq : string := String (ascii_of_N 226) (String (ascii_of_N 128) (String (ascii_of_N 156) "")).
Definition rdq : string := String (ascii_of_N 226) (String (ascii_of_N 128) (String (ascii_of_N 157) "")).

Definition starts_rdq (s : string) : bool :=
  match s with
  | String a (String b (String c _)) =>
    (byte_of a =? 226)%N && (byte_of b =? 128)%N && (byte_of c =? 157)%N
  | _ => false
  end.
Definition starts_ldq (s : string) : bool :=
  match s with
  | String a (String b (String c _)) =>
    (byte_of a =? 226)%N && (byte_of b =? 128)%N && (byte_of c =? 156)%N
  | _ => false
  end.

Definition next_is_ws_or_end (s : string) : bool :=
  match s with
  | "" => true
  | String c _ => is_ws c
  end.

(* result: token, rest, new position *)
(* [curly]: the literal was opened by a left curly quote; only then does a right curly quote close it *)
Fixpoint lex_str (curly : bool) (fuel : nat) (s : string) (pos : nat) (tmp : string) (start endpos : nat)
  : tok * string * nat :=
  match fuel with
  | O => (TErr PUntermStr pos endpos, s, pos)
  | S f =>
    match s with
    | "" => (TErr PUntermStr pos endpos, "", pos)
    | String c r =>
      if (byte_of c =? 92)%N then (* backslash *)
        match take_char r with
        | None => (TErr PUntermStr pos endpos, "", S pos)
        | Some (c2, r2) =>
          let p2 := S pos + String.length c2 in
          match c2 with
          | "\" => lex_str curly f r2 p2 (tmp ++ "\") start endpos
          | String """" "" => lex_str curly f r2 p2 (tmp ++ String """" "") start endpos
          | "n" => lex_str curly f r2 p2 (tmp ++ String (ascii_of_N 10) "") start endpos
          | "r" => lex_str curly f r2 p2 (tmp ++ String (ascii_of_N 13) "") start endpos
          | "t" => lex_str curly f r2 p2 (tmp ++ String (ascii_of_N 9) "") start endpos
          | _ => (TErr PEscape pos p2, r2, p2)
          end
        end
      else if (byte_of c =? 34)%N then
        let p2 := S pos in
        if next_is_ws_or_end r then (TLit (CStr tmp), r, p2) else (TErr PExpectWs start p2, r, p2)
      else if curly && starts_rdq s then
        let r3 := str_drop 3 s in
        let p2 := pos + 3 in
        if next_is_ws_or_end r3 then (TLit (CStr tmp), r3, p2) else (TErr PExpectWs start p2, r3, p2)
      else
        lex_str curly f r (S pos) (tmp ++ String c "") start endpos
    end
  end.

(* --- bit-string literal body --- *)
Definition nibble_N (v : N) : list N :=
  [N.land (N.shiftr v 3) 1; N.land (N.shiftr v 2) 1; N.land (N.shiftr v 1) 1; N.land v 1].

Fixpoint lex_bits (s : string) (pos : nat) (b : bvb) (endpos : nat) : tok * string * nat :=
  match s with
  | "" => (TErr PUntermBits pos endpos, "", pos)
  | String c r =>
    match hex_digit c with
    | Some x => lex_bits r (S pos) (fold_left append_bit (nibble_N x) b) endpos
    | None =>
      if is_ws c then lex_bits r (S pos) b endpos
      else if (byte_of c =? 46)%N then lex_bits r (S pos) (append_bit b 0) endpos     (* '.' *)
      else if (byte_of c =? 120)%N then lex_bits r (S pos) (append_bit b 1) endpos    (* 'x' *)
      else if (byte_of c =? 124)%N then (TLit (CBits (bvb_finish b)), r, S pos)
      else
        (* the offending character is consumed as a whole *)
        let w := utf8_width c in
        (TErr PBits pos endpos, str_drop w s, pos + w)
    end
  end.

(* --- word / number scan: consume up to the next ASCII whitespace --- *)
Fixpoint scan_word (s : string) (n : nat) (numeric : bool) (tmp : string) (has_dot : bool)
  : string * nat * string * bool :=
  match s with
  | "" => (s, n, tmp, has_dot)
  | String c r =>
    if is_ws c then (s, n, tmp, has_dot)
    else
      let dot := has_dot || (numeric && (byte_of c =? 46)%N) in
      let tmp' := if numeric && negb (byte_of c =? 95)%N then tmp ++ String c "" else tmp in
      scan_word r (S n) numeric tmp' dot
  end.

Fixpoint skip_line (s : string) (n : nat) : string * nat :=
  match s with
  | "" => (s, n)
  | String c r => if (byte_of c =? 10)%N then (s, n) else skip_line r (S n)
  end.

(* multi-line comment: after "\(" look for whitespace "\)" whitespace-or-end *)
Fixpoint skip_mlc (fuel : nat) (s : string) (pos : nat) : option (string * nat) :=
  match fuel with
  | O => None
  | S f =>
    match s with
    | "" => None
    | String c r =>
      if is_ws c then
        match r with
        | String c1 r1 =>
          if (byte_of c1 =? 92)%N then
            match r1 with
            | String c2 r2 =>
              if (byte_of c2 =? 41)%N then
                match r2 with
                | "" => Some ("", pos + 3)   (* unwrap_or('\n'): end counts as whitespace, take_char on empty *)
                | String c3 r3 => if is_ws c3 then Some (r3, pos + 4) else skip_mlc f r2 (pos + 3)
                end
              else skip_mlc f r1 (pos + 2)
            | "" => skip_mlc f r1 (pos + 2)
            end
          else skip_mlc f r (S pos)
        | "" => skip_mlc f r (S pos)
        end
      else skip_mlc f r (S pos)
    end
  end.

Definition str_pop (s : string) : string := str_take (String.length s - 1) s.

(* Lex::next *)
Definition lex_next (l : lexst) : tok * lexst :=
  let start := lpos l in
  let fin (t : tok) (rest : string) (pos : nat) := (t, mklex rest pos start (llen l)) in
  let '(r0, nws) := skip_ws (lrest l) 0 in
  if (0 <? nws)%nat then fin TWs r0 (start + nws)
  else
    match lrest l with
    | "" => fin TEnd "" start
    | String c r =>
      if (byte_of c =? 34)%N then
        let '(t, rest, pos) := lex_str false (S (String.length r)) r (S start) "" start (llen l) in fin t rest pos
      else if starts_ldq (lrest l) then
        let r3 := str_drop 3 (lrest l) in
        let '(t, rest, pos) := lex_str true (S (String.length r3)) r3 (start + 3) "" start (llen l) in fin t rest pos
      else if (byte_of c =? 124)%N then
        let '(t, rest, pos) := lex_bits r (S start) bvb_empty (llen l) in fin t rest pos
      else
        (* first character (whole, possibly multi-byte) is consumed *)
        let w := utf8_width c in
        let r1 := str_drop w (lrest l) in
        let p1 := start + w in
        (* numeric prefix detection *)
        let '(num_prefix, tmp0, r2, p2) :=
            if is_digit c then (Some c, String c "", r1, p1)
            else if (byte_of c =? 45)%N || (byte_of c =? 43)%N then
              match r1 with
              | String c2 r1' => if is_digit c2 then (Some c2, String c (String c2 ""), r1', S p1)
                                 else (None, "", r1, p1)
              | "" => (None, "", r1, p1)
              end
            else (None, "", r1, p1) in
        let is0 := match num_prefix with Some d => (byte_of d =? 48)%N | None => false end in
        let '(radix, tmp1, r3, p3) :=
            if is0 then
              match r2 with
              | String c3 r2' =>
                if (byte_of c3 =? 98)%N then (Some 2%N, str_pop tmp0, r2', S p2)
                else if (byte_of c3 =? 120)%N then (Some 16%N, str_pop tmp0, r2', S p2)
                else if (byte_of c3 =? 111)%N then (Some 8%N, str_pop tmp0, r2', S p2)
                else (None, tmp0, r2, p2)
              | "" => (None, tmp0, r2, p2)
              end
            else (None, tmp0, r2, p2) in
        let numeric := match num_prefix with Some _ => true | None => false end in
        let '(r4, n4, tmp, has_dot) := scan_word r3 0 numeric tmp1 false in
        let p4 := p3 + n4 in
        if negb numeric then
          let text := str_take (p4 - start) (lrest l) in
          if String.eqb text "\" then
            let '(r5, n5) := skip_line r4 0 in fin TComment r5 (p4 + n5)
          else if String.eqb text "\(" then
            match skip_mlc (S (String.length r4)) r4 p4 with
            | Some (r5, p5) => fin TComment r5 p5
            | None => fin (TErr PUntermComment start (llen l)) "" (llen l)
            end
          else fin (TWord text) r4 p4
        else if has_dot then
          match radix with
          | Some _ => fin (TErr PFloat start p4) r4 p4
          | None => fin (TReal tmp) r4 p4
          end
        else
          let rdx := match radix with Some x => x | None => if is0 then 16%N else 10%N end in
          match int_from_str_radix tmp rdx with
          | Some v => fin (TLit (CInt v)) r4 p4
          | None => fin (TErr PInt start p4) r4 p4
          end
    end.

(* next_nonws after the D13 repair: skip every whitespace / comment token *)
Fixpoint lex_next_nonws (fuel : nat) (l : lexst) : tok * lexst :=
  match fuel with
  | O => (TEnd, l)
  | S f =>
    let '(t, l') := lex_next l in
    match t with
    | TWs | TComment => lex_next_nonws f l'
    | _ => (t, l')
    end
  end.

(* all tokens with their spans, up to the first error or the end *)
Fixpoint lex_all (fuel : nat) (l : lexst) : list (tok * nat * nat) :=
  match fuel with
  | O => []
  | S f =>
    let '(t, l') := lex_next l in
    match t with
    | TEnd => [(t, lstart l', lpos l')]
    | TErr _ _ _ => [(t, lstart l', lpos l')]
    | _ => (t, lstart l', lpos l') :: lex_all f l'
    end
  end.

Definition lex_string (s : string) : list (tok * nat * nat) :=
  lex_all (S (String.length s)) (lex_new s).

(* ---------- token_location ---------- *)
(* mirror of the char_indices loop: returns (line, col, line_start, line_end) *)
Fixpoint tokloc_go (s : string) (i tok_start start endp line col : nat) : nat * nat * nat * nat :=
  match s with
  | "" => (line, col, start, endp)
  | String c r =>
    let n := byte_of c in
    if (128 <=? n)%N && (n <? 192)%N then
      (* continuation byte: char_indices does not stop here *)
      tokloc_go r (S i) tok_start start endp line col
    else
      let endp' := i + utf8_width c in
      if (n =? 10)%N || (n =? 13)%N then
        if ((start <=? tok_start) && (tok_start <? endp'))%nat then (line, col, start, i)
        else tokloc_go r (S i) tok_start endp' endp' (if (n =? 10)%N then S line else line) 0
      else
        tokloc_go r (S i) tok_start start endp' line (if (i <? tok_start)%nat then S col else col)
  end.

Definition token_location (src : string) (tok_start : nat) : nat * nat * nat * nat :=
  tokloc_go src 0 tok_start 0 1 0 0.

(* specification of a location *)
Fixpoint count_nl (s : string) (n : nat) : nat :=
  match n, s with
  | S m, String c r => (if (byte_of c =? 10)%N then 1 else 0) + count_nl r m
  | _, _ => 0
  end.

(* ---------- specification-level definitions for the lexer properties ---------- *)

(* token spans tile the input: each starts where the previous one ended *)
Fixpoint tiles (pos : nat) (l : list (tok * nat * nat)) : Prop :=
  match l with
  | [] => True
  | (_, a, b) :: r => a = pos /\ pos <= b /\ tiles b r
  end.

Definition is_final (t : tok) : bool :=
  match t with TEnd | TErr _ _ _ => true | _ => false end.

Definition substring_of (s : string) (a b : nat) : string := str_take (b - a) (str_drop a s).

Fixpoint no_ws (s : string) : bool :=
  match s with
  | "" => true
  | String c r => negb (is_ws c) && no_ws r
  end.

(* value of a digit string in a radix (most significant digit first) *)
Fixpoint digits_value (radix : Z) (ds : list N) (acc : Z) : Z :=
  match ds with
  | [] => acc
  | d :: r => digits_value radix r (acc * radix + Z.of_N d)%Z
  end.

Definition is_nl (c : ascii) : bool := (byte_of c =? 10)%N || (byte_of c =? 13)%N.
Definition is_cont (c : ascii) : bool := (128 <=? byte_of c)%N && (byte_of c <? 192)%N.

(* number of '\n' among the first p bytes *)
Fixpoint spec_line (s : string) (p : nat) : nat :=
  match p, s with
  | S q, String c r => (if (byte_of c =? 10)%N then 1 else 0) + spec_line r q
  | _, _ => 0
  end.

(* one past the last line break strictly before byte p (0 if none) *)
Fixpoint spec_line_start_go (s : string) (i p acc : nat) : nat :=
  match s with
  | "" => acc
  | String c r => if (i <? p)%nat then spec_line_start_go r (S i) p (if is_nl c then S i else acc) else acc
  end.
Definition spec_line_start (s : string) (p : nat) : nat := spec_line_start_go s 0 p 0.

(* the first line break at or after byte p (the length of the text if none) *)
Fixpoint spec_line_end_go (s : string) (i p : nat) : nat :=
  match s with
  | "" => i
  | String c r => if (p <=? i)%nat && is_nl c then i else spec_line_end_go r (S i) p
  end.
Definition spec_line_end (s : string) (p : nat) : nat := spec_line_end_go s 0 p.

(* characters (bytes that are not UTF-8 continuation bytes) in [a, b) *)
Fixpoint spec_chars_go (s : string) (i a b : nat) : nat :=
  match s with
  | "" => 0
  | String c r =>
    (if (a <=? i)%nat && (i <? b)%nat && negb (is_cont c) then 1 else 0) + spec_chars_go r (S i) a b
  end.
Definition spec_col (s : string) (p : nat) : nat := spec_chars_go s 0 (spec_line_start s p) p.
