(* Cell.v: values of the language (mirror of /repo/src/cell.rs).
   Strings are UTF-8 byte strings (Coq [string]); reals are IEEE binary64 bit
   patterns (Z in [0, 2^64)); maps are association lists kept sorted by [cell_cmp]
   without duplicate keys (abstraction of rpds::RedBlackTreeMap); vectors are lists. *)
From Coq Require Export String Ascii.
From Xeh Require Import Model.Prelude Model.Bits.

Inductive fnref :=
| FInterp (addr : nat)
| FNative (name : string).

Inductive cell :=
| CNil
| CFlag (b : bool)
| CInt (z : Z)
| CReal (bits : Z)
| CStr (s : string)
| CVec (l : list cell)
| CMap (m : list (cell * cell))
| CFun (f : fnref)
| CBits (b : cbs)
| CAny
| CTag (tags : list (cell * cell)) (v : cell).

(* Cell::value(): look through one tag wrapper *)
Definition value (c : cell) : cell :=
  match c with CTag _ v => v | _ => c end.

Definition tags_of (c : cell) : option (list (cell * cell)) :=
  match c with CTag t _ => Some t | _ => None end.

(* with_tags stores value().clone(): a tag wrapper never wraps a tag wrapper *)
Definition with_tags (c : cell) (t : list (cell * cell)) : cell := CTag t (value c).

(* remove every tag, at every depth *)
Fixpoint strip (c : cell) : cell :=
  match c with
  | CTag _ v => strip v
  | CVec l => CVec (map strip l)
  | CMap m => CMap (map (fun kv => (strip (fst kv), strip (snd kv))) m)
  | x => x
  end.

(* ---- IEEE binary64 on bit patterns (no arithmetic here) ---- *)
Definition f64_exp (p : Z) : Z := (Z.shiftr p 52) mod 2048.
Definition f64_man (p : Z) : Z := p mod (2 ^ 52).
Definition f64_neg (p : Z) : bool := Z.testbit p 63.
Definition f64_is_nan (p : Z) : bool := (f64_exp p =? 2047)%Z && negb (f64_man p =? 0)%Z.
Definition f64_is_zero (p : Z) : bool := (p mod 2 ^ 63 =? 0)%Z.
(* magnitude order key of a non-NaN pattern: monotone in the real value *)
Definition f64_key (p : Z) : Z :=
  let m := (p mod 2 ^ 63)%Z in if f64_neg p then (- m)%Z else m.
Definition f64_eqb (p q : Z) : bool :=
  negb (f64_is_nan p) && negb (f64_is_nan q) && (f64_key p =? f64_key q)%Z.
(* partial_cmp: None when unordered *)
Definition f64_pcmp (p q : Z) : option comparison :=
  if f64_is_nan p || f64_is_nan q then None else Some (f64_key p ?= f64_key q)%Z.

Definition fnref_eqb (f g : fnref) : bool :=
  match f, g with
  | FInterp a, FInterp b => a =? b
  | FNative a, FNative b => String.eqb a b
  | _, _ => false
  end.

(* ---- total order (Ord for Cell after the D19 repair) ---- *)
Definition rank (c : cell) : nat :=
  match c with
  | CNil => 0 | CFlag _ => 1 | CInt _ => 2 | CReal _ => 3 | CStr _ => 4 | CBits _ => 5
  | CVec _ => 6 | CMap _ => 7 | CFun _ => 8 | CAny => 9 | CTag _ _ => 10
  end.

Fixpoint string_cmp (a b : string) : comparison :=
  match a, b with
  | EmptyString, EmptyString => Eq
  | EmptyString, _ => Lt
  | _, EmptyString => Gt
  | String x a', String y b' =>
    match (N_of_ascii x ?= N_of_ascii y)%N with
    | Eq => string_cmp a' b'
    | r => r
    end
  end.

Fixpoint list_cmp {A} (cmp : A -> A -> comparison) (a b : list A) : comparison :=
  match a, b with
  | [], [] => Eq
  | [], _ => Lt
  | _, [] => Gt
  | x :: a', y :: b' => match cmp x y with Eq => list_cmp cmp a' b' | r => r end
  end.

Definition bool_cmp (a b : bool) : comparison :=
  match a, b with
  | false, true => Lt | true, false => Gt | _, _ => Eq
  end.

Definition real_cmp (p q : Z) : comparison :=
  match f64_pcmp p q with
  | Some r => r
  | None => bool_cmp (f64_is_nan p) (f64_is_nan q)
  end.

Definition fnref_cmp (f g : fnref) : comparison :=
  match f, g with
  | FInterp a, FInterp b => a ?= b
  | FInterp _, FNative _ => Lt
  | FNative _, FInterp _ => Gt
  | FNative a, FNative b => string_cmp a b  (* the code orders by function address *)
  end.

Fixpoint cell_cmp (a b : cell) {struct a} : comparison :=
  match a with
  | CTag _ v => cell_cmp v b
  | CNil => match value b with CNil => Eq | vb => rank CNil ?= rank vb end
  | CFlag x => match value b with CFlag y => bool_cmp x y | vb => rank a ?= rank vb end
  | CInt x => match value b with CInt y => (x ?= y)%Z | vb => rank a ?= rank vb end
  | CReal x => match value b with CReal y => real_cmp x y | vb => rank a ?= rank vb end
  | CStr x => match value b with CStr y => string_cmp x y | vb => rank a ?= rank vb end
  | CBits x => match value b with
               | CBits y => list_cmp bool_cmp (abs x) (abs y)
               | vb => rank a ?= rank vb end
  | CVec x =>
    match value b with
    | CVec y =>
      (fix go (x : list cell) (y : list cell) : comparison :=
         match x, y with
         | [], [] => Eq
         | [], _ => Lt
         | _, [] => Gt
         | p :: x', q :: y' => match cell_cmp p q with Eq => go x' y' | r => r end
         end) x y
    | vb => rank a ?= rank vb
    end
  | CMap x =>
    match value b with
    | CMap y =>
      (fix go (x : list (cell * cell)) (y : list (cell * cell)) : comparison :=
         match x, y with
         | [], [] => Eq
         | [], _ => Lt
         | _, [] => Gt
         | p :: x', q :: y' =>
           match cell_cmp (fst p) (fst q) with
           | Eq => match cell_cmp (snd p) (snd q) with Eq => go x' y' | r => r end
           | r => r
           end
         end) x y
    | vb => rank a ?= rank vb
    end
  | CFun f => match value b with CFun g => fnref_cmp f g | vb => rank a ?= rank vb end
  | CAny => match value b with CAny => Eq | vb => rank a ?= rank vb end
  end.

(* ---- equality (PartialEq for Cell): tags are ignored at every level ---- *)

Definition assoc_find (m : list (cell * cell)) (k : cell) : option cell :=
  match find (fun kv => match cell_cmp (fst kv) k with Eq => true | _ => false end) m with
  | Some kv => Some (snd kv)
  | None => None
  end.

Fixpoint cell_eqb (a b : cell) {struct a} : bool :=
  match a with
  | CTag _ v => cell_eqb v b
  | CNil => match value b with CNil => true | _ => false end
  | CFlag x => match value b with CFlag y => Bool.eqb x y | _ => false end
  | CInt x => match value b with CInt y => (x =? y)%Z | _ => false end
  | CReal x => match value b with CReal y => f64_eqb x y | _ => false end
  | CStr x => match value b with CStr y => String.eqb x y | _ => false end
  | CBits x => match value b with CBits y => eq_with x y | _ => false end
  | CVec x =>
    match value b with
    | CVec y =>
      (fix go (x y : list cell) : bool :=
         match x, y with
         | [], [] => true
         | p :: x', q :: y' => cell_eqb p q && go x' y'
         | _, _ => false
         end) x y
    | _ => false
    end
  | CMap x =>
    match value b with
    | CMap y =>
      (length x =? length y) &&
      (fix go (x : list (cell * cell)) : bool :=
         match x with
         | [] => true
         | p :: x' =>
           match assoc_find y (fst p) with
           | Some v' => cell_eqb (snd p) v' && go x'
           | None => false
           end
         end) x
    | _ => false
    end
  | CFun f => match value b with CFun g => fnref_eqb f g | _ => false end
  | CAny => false
  end.

(* ---- map operations on the sorted association list ---- *)

Fixpoint assoc_insert (m : list (cell * cell)) (k v : cell) : list (cell * cell) :=
  match m with
  | [] => [(k, v)]
  | (k', v') :: r =>
    match cell_cmp k k' with
    | Lt => (k, v) :: m
    | Eq => (k, v) :: r     (* rpds insert replaces both key and value *)
    | Gt => (k', v') :: assoc_insert r k v
    end
  end.

Fixpoint assoc_remove (m : list (cell * cell)) (k : cell) : list (cell * cell) :=
  match m with
  | [] => []
  | (k', v') :: r =>
    match cell_cmp k k' with
    | Eq => r
    | _ => (k', v') :: assoc_remove r k
    end
  end.

(* typed accessors: error kind EType unless noted *)
Definition to_xint (c : cell) : outcome Z :=
  match value c with CInt z => Ok z | _ => Err EType end.
Definition to_real (c : cell) : outcome Z :=
  match value c with CReal r => Ok r | _ => Err EType end.
Definition to_bool (c : cell) : outcome bool :=
  match value c with CFlag b => Ok b | _ => Err EType end.
Definition cond_true (c : cell) : outcome bool :=
  match value c with CNil => Ok false | CFlag b => Ok b | _ => Err EType end.
Definition to_vec (c : cell) : outcome (list cell) :=
  match value c with CVec l => Ok l | _ => Err EType end.
Definition to_map (c : cell) : outcome (list (cell * cell)) :=
  match value c with CMap m => Ok m | _ => Err EType end.
Definition to_xstr (c : cell) : outcome string :=
  match value c with CStr s => Ok s | _ => Err EType end.
Definition to_bitstr (c : cell) : outcome cbs :=
  match value c with CBits b => Ok b | _ => Err EType end.
(* to_usize / to_isize after the D8 repair: out of range is an overflow error *)
Definition to_usize (c : cell) : outcome Z :=
  match value c with
  | CInt z => if (z <? 0)%Z then Err EType
              else if in_usize z then Ok z else Err EOverflow
  | _ => Err EType
  end.
Definition to_isize (c : cell) : outcome Z :=
  match value c with
  | CInt z => if in_isize z then Ok z else Err EOverflow
  | _ => Err EType
  end.

Definition insert_tag (c k v : cell) : cell :=
  with_tags c (assoc_insert (match tags_of c with Some t => t | None => [] end) k v).
Definition remove_tag (c k : cell) : cell :=
  with_tags c (match tags_of c with Some t => assoc_remove t k | None => [] end).
Definition get_tag (c k : cell) : option cell :=
  match tags_of c with Some t => assoc_find t k | None => None end.
