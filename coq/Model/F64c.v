(* F64c.v: conversions between integers and IEEE-754 binary64 / binary32 bit patterns,
   in plain integer arithmetic (mirrors of Rust's `as` casts and f64::round). *)
From Xeh Require Import Model.Prelude Model.Cell.
Local Open Scope Z_scope.

Definition bitlen (a : Z) : Z := if a <=? 0 then 0 else Z.log2 a + 1.

(* round-to-nearest-even division of a >= 0 by 2^k (k >= 0) *)
Definition rne_shr (a k : Z) : Z :=
  if k <=? 0 then a * 2 ^ (- k)
  else
    let q := a / 2 ^ k in
    let r := a mod 2 ^ k in
    let half := 2 ^ (k - 1) in
    if (half <? r) || ((r =? half) && Z.odd q) then q + 1 else q.

Definition f64_sign_bit (neg : bool) : Z := if neg then 2 ^ 63 else 0.

(* magnitude a >= 0 to binary64, round to nearest even *)
Definition f64_of_mag (neg : bool) (a : Z) : Z :=
  if a =? 0 then f64_sign_bit neg
  else
    let L := bitlen a in
    if L <=? 53 then
      f64_sign_bit neg + (L + 1022) * 2 ^ 52 + (a * 2 ^ (53 - L) - 2 ^ 52)
    else
      let q := rne_shr a (L - 53) in
      if q =? 2 ^ 53 then f64_sign_bit neg + (L + 1023) * 2 ^ 52
      else f64_sign_bit neg + (L + 1022) * 2 ^ 52 + (q - 2 ^ 52).

(* i128 as f64 *)
Definition f64_of_int (z : Z) : Z := f64_of_mag (z <? 0) (Z.abs z).

(* significand and exponent of a finite pattern: value = (-1)^s * mant * 2^ex *)
Definition f64_mant (p : Z) : Z := if f64_exp p =? 0 then f64_man p else 2 ^ 52 + f64_man p.
Definition f64_ex (p : Z) : Z := if f64_exp p =? 0 then -1074 else f64_exp p - 1075.

(* f64 as i128: NaN -> 0, saturating, truncation toward zero *)
Definition f64_to_int (p : Z) : Z :=
  if f64_is_nan p then 0
  else if f64_exp p =? 2047 then (if f64_neg p then i128_min else i128_max)
  else
    let m := f64_mant p in
    let e := f64_ex p in
    let mag := if 0 <=? e then (if 200 <? e then 2 ^ 200 else m * 2 ^ e) else m / 2 ^ (- e) in
    let v := if f64_neg p then - mag else mag in
    if v <? i128_min then i128_min else if i128_max <? v then i128_max else v.

(* f64::round: to the nearest integer, halves away from zero; the sign is kept *)
Definition f64_round (p : Z) : Z :=
  if f64_exp p =? 2047 then p
  else if 1075 <=? f64_exp p then p
  else
    let m := f64_mant p in
    let k := - f64_ex p in
    let q := m / 2 ^ k in
    let r := m mod 2 ^ k in
    let q' := if 2 ^ (k - 1) <=? r then q + 1 else q in
    f64_of_mag (f64_neg p) q'.

(* binary32 pattern -> binary64 pattern (exact) *)
Definition f32_to_f64 (p : Z) : Z :=
  let s := Z.testbit p 31 in
  let e := (p / 2 ^ 23) mod 256 in
  let m := p mod 2 ^ 23 in
  if e =? 255 then
    (if m =? 0 then f64_sign_bit s + 2047 * 2 ^ 52
     else f64_sign_bit s + 2047 * 2 ^ 52 + Z.lor (2 ^ 51) (m * 2 ^ 29))   (* the quiet bit is set, the payload kept *)
  else if e =? 0 then
    (if m =? 0 then f64_sign_bit s
     else let L := bitlen m in
          f64_sign_bit s + (L + 873) * 2 ^ 52 + (m * 2 ^ (53 - L) - 2 ^ 52))
  else f64_sign_bit s + (e + 896) * 2 ^ 52 + m * 2 ^ 29.

(* binary64 pattern -> binary32 pattern, round to nearest even *)
Definition f32_sign_bit (neg : bool) : Z := if neg then 2 ^ 31 else 0.
Definition f64_to_f32 (p : Z) : Z :=
  let s := f64_neg p in
  if f64_is_nan p then f32_sign_bit s + 255 * 2 ^ 23 + 2 ^ 22 + (f64_man p / 2 ^ 29) mod 2 ^ 22
  else if f64_exp p =? 2047 then f32_sign_bit s + 255 * 2 ^ 23
  else
    let m := f64_mant p in
    if m =? 0 then f32_sign_bit s
    else
      let ex := f64_ex p in
      let E := bitlen m - 1 + ex in            (* floor(log2 |value|) *)
      if E <? -126 then
        (* subnormal result (or rounds up into the smallest normal): quantum 2^-149 *)
        f32_sign_bit s + rne_shr m (- (ex + 149))
      else
        let q := rne_shr m (- (ex - (E - 23))) in
        let '(E', q') := if q =? 2 ^ 24 then (E + 1, 2 ^ 23) else (E, q) in
        if 127 <? E' then f32_sign_bit s + 255 * 2 ^ 23
        else f32_sign_bit s + (E' + 127) * 2 ^ 23 + (q' - 2 ^ 23).
