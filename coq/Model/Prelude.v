(* Prelude: outcome type, fixed-width wrappers, small list helpers.
   Executable definitions only; no proofs in Model/. *)
From Coq Require Export List NArith ZArith Arith Bool Lia.
Export ListNotations.

(* Error kinds: the small enum the correspondence canonicalises Xerr to. *)
Inductive ekind :=
| EUnderflow | EType | EDivZero | EOverflow | EBounds | ERead | ESeek | EMatch
| EFlow | EUnknown | EParse | EAssert | EUser | ELimit | EConst | EIo | EExit
| ERetUnderflow | ELoopUnderflow | EToBytestr | ESlice | EExpectName | EExpectLit
| EInternal | EContext | EReadonly | EHeapOob | ELocalOob | EFloatLen | ELetSyntax | EMsg | EOther.

(* Result of one modelled call: a value, an error value, or a Rust panic. *)
Inductive outcome (A : Type) :=
| Ok (a : A)
| Err (k : ekind)
| Panic.
Arguments Ok {A} a.
Arguments Err {A} k.
Arguments Panic {A}.

Definition obind {A B} (m : outcome A) (f : A -> outcome B) : outcome B :=
  match m with Ok a => f a | Err k => Err k | Panic => Panic end.
Notation "'do' x <- m ; k" := (obind m (fun x => k))
  (at level 200, x pattern, m at level 100, k at level 200, only parsing).

(* machine integer views *)
Definition two128 : Z := Z.pow 2 128.
Definition two127 : Z := Z.pow 2 127.
Definition two64 : Z := Z.pow 2 64.
Definition two63 : Z := Z.pow 2 63.

Definition i128_min : Z := (- two127)%Z.
Definition i128_max : Z := (two127 - 1)%Z.

(* wrap an exact integer into the i128 range (two's complement) *)
Definition wrap128 (z : Z) : Z :=
  let m := (z mod two128)%Z in
  if (m <? two127)%Z then m else (m - two128)%Z.

Definition in_i128 (z : Z) : bool := ((i128_min <=? z) && (z <=? i128_max))%Z.

(* i128 -> u128 reinterpretation and back *)
Definition to_u128 (z : Z) : Z := (z mod two128)%Z.
Definition of_u128 (z : Z) : Z := wrap128 z.

(* usize / isize casts of an i128 with `as` *)
Definition as_usize (z : Z) : Z := (z mod two64)%Z.
Definition as_isize (z : Z) : Z :=
  let m := (z mod two64)%Z in if (m <? two63)%Z then m else (m - two64)%Z.
Definition in_usize (z : Z) : bool := ((0 <=? z) && (z <? two64))%Z.
Definition in_isize (z : Z) : bool := ((- two63 <=? z) && (z <? two63))%Z.

Fixpoint chunks8 {A} (fuel : nat) (l : list A) : list (list A) :=
  match fuel with
  | O => []
  | S f => match l with
           | [] => []
           | _ => firstn 8 l :: chunks8 f (skipn 8 l)
           end
  end.
Definition chunk8 {A} (l : list A) : list (list A) := chunks8 (length l) l.

(* big-endian value of a bit list *)
Definition bits_to_N (l : list bool) : N :=
  fold_left (fun acc (b : bool) => (2 * acc + (if b then 1 else 0))%N) l 0%N.

Definition b2n (b : bool) : N := if b then 1%N else 0%N.
