(* BaseN.v: mirrors of the text encodings used by /repo/src/base_ext.rs:
   base32 0.4.0 (RFC4648 with padding, Crockford), base64 0.21 STANDARD, z85 3.0.5.
   Bytes and characters are numbers (list N); the words compose these with
   into_bitstr / bytestr (Words.v) on the way in and Bitstr::from on the way out. *)
From Xeh Require Import Model.Prelude.
Local Open Scope N_scope.

Definition nthN (l : list N) (i : N) : N := nth (N.to_nat i) l 0.
Definition b8 (x : N) : N := N.land x 255.

(* ---------------- base32 ---------------- *)
Inductive b32alpha := Rfc4648 | Crockford.

(* "ABCDEFGHIJKLMNOPQRSTUVWXYZ234567" / "0123456789ABCDEFGHJKMNPQRSTVWXYZ" *)
Definition rfc_alphabet : list N :=
  [65;66;67;68;69;70;71;72;73;74;75;76;77;78;79;80;81;82;83;84;85;86;87;88;89;90;50;51;52;53;54;55].
Definition crock_alphabet : list N :=
  [48;49;50;51;52;53;54;55;56;57;65;66;67;68;69;70;71;72;74;75;77;78;80;81;82;83;84;86;87;88;89;90].

Definition b32_chunk (al : list N) (b0 b1 b2 b3 b4 : N) : list N :=
  [ nthN al (N.shiftr (N.land b0 248) 3);
    nthN al (N.lor (N.shiftl (N.land b0 7) 2) (N.shiftr (N.land b1 192) 6));
    nthN al (N.shiftr (N.land b1 62) 1);
    nthN al (N.lor (N.shiftl (N.land b1 1) 4) (N.shiftr (N.land b2 240) 4));
    nthN al (N.lor (N.shiftl (N.land b2 15) 1) (N.shiftr b3 7));
    nthN al (N.shiftr (N.land b3 124) 2);
    nthN al (N.lor (N.shiftl (N.land b3 3) 3) (N.shiftr (N.land b4 224) 5));
    nthN al (N.land b4 31) ].

Fixpoint b32_enc_chunks (al : list N) (fuel : nat) (d : list N) : list N :=
  match fuel with
  | O => []
  | S f =>
    match d with
    | [] => []
    | _ => let c := firstn 5 d in
           b32_chunk al (nth 0 c 0) (nth 1 c 0) (nth 2 c 0) (nth 3 c 0) (nth 4 c 0)
           ++ b32_enc_chunks al f (skipn 5 d)
    end
  end.

Definition b32_encode (a : b32alpha) (d : list N) : list N :=
  let '(al, padding) := match a with Rfc4648 => (rfc_alphabet, true) | Crockford => (crock_alphabet, false) end in
  let ret := b32_enc_chunks al (S (length d)) d in
  let len := length d in
  if (len mod 5 =? 0)%nat then ret
  else
    let num_extra := (8 - (len mod 5 * 8 + 4) / 5)%nat in
    let keep := firstn (length ret - num_extra) ret in
    if padding then keep ++ repeat 61 num_extra else keep.

(* inverse tables indexed by (uppercase c) - '0', 43 entries; 255 stands for -1 *)
Definition rfc_inv : list N :=
  [255;255;26;27;28;29;30;31;255;255;255;255;255;0;255;255;255;
   0;1;2;3;4;5;6;7;8;9;10;11;12;13;14;15;16;17;18;19;20;21;22;23;24;25].
Definition crock_inv : list N :=
  [0;1;2;3;4;5;6;7;8;9;255;255;255;255;255;255;255;
   10;11;12;13;14;15;16;17;1;18;19;1;20;21;0;22;23;24;25;26;255;27;28;29;30;31].

Definition to_upper (c : N) : N := if (97 <=? c) && (c <=? 122) then c - 32 else c.

Definition b32_sym (inv : list N) (c : N) : option N :=
  let u := to_upper c in
  if u <? 48 then None
  else
    let i := u - 48 in
    if 43 <=? i then None
    else let v := nthN inv i in if v =? 255 then None else Some v.

Fixpoint map_opt {A B} (f : A -> option B) (l : list A) : option (list B) :=
  match l with
  | [] => Some []
  | x :: r => match f x, map_opt f r with
              | Some y, Some ys => Some (y :: ys)
              | _, _ => None
              end
  end.

Definition b32_dec_chunk (b : list N) : list N :=
  let g i := nth i b 0 in
  [ b8 (N.lor (N.shiftl (g 0%nat) 3) (N.shiftr (g 1%nat) 2));
    b8 (N.lor (N.lor (N.shiftl (g 1%nat) 6) (N.shiftl (g 2%nat) 1)) (N.shiftr (g 3%nat) 4));
    b8 (N.lor (N.shiftl (g 3%nat) 4) (N.shiftr (g 4%nat) 1));
    b8 (N.lor (N.lor (N.shiftl (g 4%nat) 7) (N.shiftl (g 5%nat) 2)) (N.shiftr (g 6%nat) 3));
    b8 (N.lor (N.shiftl (g 6%nat) 5) (g 7%nat)) ].

Fixpoint b32_dec_chunks (fuel : nat) (v : list N) : list N :=
  match fuel with
  | O => []
  | S f => match v with
           | [] => []
           | _ => b32_dec_chunk (firstn 8 v) ++ b32_dec_chunks f (skipn 8 v)
           end
  end.

(* number of trailing '=' among the last min(6, len) characters *)
Fixpoint count_trailing_eq (k : nat) (rev_data : list N) : nat :=
  match k, rev_data with
  | S j, c :: r => if c =? 61 then S (count_trailing_eq j r) else O
  | _, _ => O
  end.

Definition b32_decode (a : b32alpha) (data : list N) : option (list N) :=
  if negb (forallb (fun c => c <? 128) data) then None
  else
    let inv := match a with Rfc4648 => rfc_inv | Crockford => crock_inv end in
    let unpadded := (length data - count_trailing_eq (Nat.min 6 (length data)) (rev data))%nat in
    let out_len := (unpadded * 5 / 8)%nat in
    match map_opt (b32_sym inv) data with
    | None => None
    | Some vals => Some (firstn out_len (b32_dec_chunks (S (length vals)) vals))
    end.

(* ---------------- z85 ---------------- *)
Definition z85_letters : list N :=
  [48;49;50;51;52;53;54;55;56;57;97;98;99;100;101;102;
   103;104;105;106;107;108;109;110;111;112;113;114;115;116;117;118;
   119;120;121;122;65;66;67;68;69;70;71;72;73;74;75;76;
   77;78;79;80;81;82;83;84;85;86;87;88;89;90;46;45;
   58;43;61;94;33;47;42;63;38;60;62;40;41;91;93;123;
   125;64;37;36;35].

Definition z85_octets : list N :=
  [255;68;255;84;83;82;72;255;75;76;70;65;255;63;62;69;
   0;1;2;3;4;5;6;7;8;9;64;255;73;66;74;71;
   81;36;37;38;39;40;41;42;43;44;45;46;47;48;49;50;
   51;52;53;54;55;56;57;58;59;60;61;77;255;78;67;255;
   255;10;11;12;13;14;15;16;17;18;19;20;21;22;23;24;
   25;26;27;28;29;30;31;32;33;34;35;79;255;80;255;255].

Definition be32 (b0 b1 b2 b3 : N) : N := ((b0 * 256 + b1) * 256 + b2) * 256 + b3.

Definition z85_enc_num (n : N) : list N :=
  [ nthN z85_letters ((n / 52200625) mod 85); nthN z85_letters ((n / 614125) mod 85);
    nthN z85_letters ((n / 7225) mod 85); nthN z85_letters ((n / 85) mod 85); nthN z85_letters (n mod 85) ].

Fixpoint z85_enc_chunks (fuel : nat) (d : list N) : list N :=
  match fuel with
  | O => []
  | S f =>
    match d with
    | b0 :: b1 :: b2 :: b3 :: r => z85_enc_num (be32 b0 b1 b2 b3) ++ z85_enc_chunks f r
    | [] => []
    | tail =>
      (* encode_tail: left-pad with zeros, mark the padding digits with '#' *)
      let diff := (4 - length tail)%nat in
      let padded := repeat 0 diff ++ tail in
      let out := z85_enc_num (be32 (nth 0 padded 0) (nth 1 padded 0) (nth 2 padded 0) (nth 3 padded 0)) in
      repeat 35 diff ++ skipn diff out
    end
  end.
Definition z85_encode (d : list N) : list N := z85_enc_chunks (S (length d)) d.

Fixpoint z85_chunk_num (l : list N) (acc : N) : option N :=
  match l with
  | [] => Some acc
  | c :: r =>
    if (c <=? 32) || (128 <=? c) then None
    else let b := nthN z85_octets (c - 32) in
         if b =? 255 then None else z85_chunk_num r (acc * 85 + b)
  end.

Definition be_bytes32 (n : N) : list N :=
  [ (n / 16777216) mod 256; (n / 65536) mod 256; (n / 256) mod 256; n mod 256 ].

Definition z85_decode_chunk (l : list N) : option (list N) :=
  match z85_chunk_num l 0 with
  | Some n => if 4294967295 <? n then None else Some (be_bytes32 n)
  | None => None
  end.

Fixpoint count_lead_hash (l : list N) : nat :=
  match l with
  | c :: r => if c =? 35 then S (count_lead_hash r) else O
  | [] => O
  end.

Definition z85_decode_tail (l : list N) : option (list N) :=
  let diff := count_lead_hash l in
  match z85_chunk_num (skipn diff l) 0 with
  | Some n =>
    if 4294967295 <? n then None
    else if (256 ^ (4 - N.of_nat diff) - 1) <? n then None
    else Some (skipn diff (be_bytes32 n))
  | None => None
  end.

Fixpoint z85_dec_chunks (fuel : nat) (d : list N) : option (list N) :=
  match fuel with
  | O => Some []
  | S f =>
    match d with
    | [] => Some []
    | _ => match z85_decode_chunk (firstn 5 d), z85_dec_chunks f (skipn 5 d) with
           | Some a, Some b => Some (a ++ b)
           | _, _ => None
           end
    end
  end.

Definition z85_crate_decode (d : list N) : option (list N) :=
  let len := length d in
  if (len =? 0)%nat then Some []
  else if negb (len mod 5 =? 0)%nat then None
  else
    let has_tail := nth (len - 5) d 0 =? 35 in
    let chunked := if has_tail then (len - 5)%nat else len in
    match z85_dec_chunks (S len) (firstn chunked d) with
    | None => None
    | Some out =>
      if has_tail then
        match z85_decode_tail (skipn chunked d) with
        | Some t => Some (out ++ t)
        | None => None
        end
      else Some out
    end.

(* zero85_decode_res (base_ext.rs) after the repair of D39: a text ending in five padding marks is refused
   before the crate sees it.  The crate's decode_tail computes `4 - diff` in u32 and panics for diff = 5; the
   mirror [z85_decode_tail] above uses truncated subtraction there, which is why the guard is part of what the
   word decodes with, and [z85_guard_excludes_underflow] (Proofs/BaseNProofs.v) shows it covers exactly that case. *)
Definition ends_hash5 (d : list N) : bool :=
  match rev d with
  | a :: b :: c :: e :: f :: _ => (a =? 35) && (b =? 35) && (c =? 35) && (e =? 35) && (f =? 35)
  | _ => false
  end.
Definition z85_decode (d : list N) : option (list N) :=
  if ends_hash5 d then None else z85_crate_decode d.

(* ---------------- base64 (STANDARD: padded, canonical, no trailing bits) ---------------- *)
Definition b64_alphabet : list N :=
  [65;66;67;68;69;70;71;72;73;74;75;76;77;78;79;80;81;82;83;84;85;86;87;88;89;90;
   97;98;99;100;101;102;103;104;105;106;107;108;109;110;111;112;113;114;115;116;117;118;119;120;121;122;
   48;49;50;51;52;53;54;55;56;57;43;47].

Fixpoint b64_enc_chunks (fuel : nat) (d : list N) : list N :=
  match fuel with
  | O => []
  | S f =>
    match d with
    | b0 :: b1 :: b2 :: r =>
      [ nthN b64_alphabet (N.shiftr b0 2);
        nthN b64_alphabet (N.lor (N.shiftl (N.land b0 3) 4) (N.shiftr b1 4));
        nthN b64_alphabet (N.lor (N.shiftl (N.land b1 15) 2) (N.shiftr b2 6));
        nthN b64_alphabet (N.land b2 63) ] ++ b64_enc_chunks f r
    | [b0; b1] =>
      [ nthN b64_alphabet (N.shiftr b0 2);
        nthN b64_alphabet (N.lor (N.shiftl (N.land b0 3) 4) (N.shiftr b1 4));
        nthN b64_alphabet (N.shiftl (N.land b1 15) 2); 61 ]
    | [b0] =>
      [ nthN b64_alphabet (N.shiftr b0 2); nthN b64_alphabet (N.shiftl (N.land b0 3) 4); 61; 61 ]
    | [] => []
    end
  end.
Definition b64_encode (d : list N) : list N := b64_enc_chunks (S (length d)) d.

Definition b64_sym (c : N) : option N :=
  if (65 <=? c) && (c <=? 90) then Some (c - 65)
  else if (97 <=? c) && (c <=? 122) then Some (c - 71)
  else if (48 <=? c) && (c <=? 57) then Some (c + 4)
  else if c =? 43 then Some 62
  else if c =? 47 then Some 63
  else None.

Fixpoint b64_dec_quads (fuel : nat) (v : list N) : list N :=
  match fuel with
  | O => []
  | S f =>
    match v with
    | a :: b :: c :: d :: r =>
      [ b8 (N.lor (N.shiftl a 2) (N.shiftr b 4)); b8 (N.lor (N.shiftl b 4) (N.shiftr c 2)); b8 (N.lor (N.shiftl c 6) d) ]
      ++ b64_dec_quads f r
    | [a; b; c] => [ b8 (N.lor (N.shiftl a 2) (N.shiftr b 4)); b8 (N.lor (N.shiftl b 4) (N.shiftr c 2)) ]
    | [a; b] => [ b8 (N.lor (N.shiftl a 2) (N.shiftr b 4)) ]
    | _ => []
    end
  end.

Definition b64_decode (data : list N) : option (list N) :=
  let len := length data in
  let pad := count_trailing_eq (Nat.min 2 len) (rev data) in
  let body := firstn (len - pad) data in
  match map_opt b64_sym body with
  | None => None
  | Some vals =>
    let n := length vals in
    let r := (n mod 4)%nat in
    if negb ((n + pad) mod 4 =? 0)%nat then None
    else if (r =? 1)%nat then None
    else if (r =? 0)%nat && negb (pad =? 0)%nat then None
    else if (r =? 2)%nat && negb (N.land (last vals 0) 15 =? 0) then None
    else if (r =? 3)%nat && negb (N.land (last vals 0) 3 =? 0) then None
    else Some (b64_dec_quads (S n) vals)
  end.
