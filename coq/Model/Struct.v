(* Struct.v: the independent semantics of the control-flow grammar (property C01).
   A source text is parsed into an abstract syntax tree in which every name has been
   resolved the way a reader resolves it (textual order: locals of the enclosing
   definition, then the newest definition / variable, then the native words), and the
   tree is evaluated structurally: no bytecode, no jumps, no instruction pointer.
   Primitive words are the same programs as in Words.v; loops use the machine's loop
   stack so that I / J / K mean the same thing. *)
From Xeh Require Import Model.Prelude Model.Bits Model.Codec Model.Cell Model.Lexer Model.Fmt Model.Vm Model.Words.
Local Notation length := List.length.
Local Open Scope string_scope.

Definition pos : Type := nat * nat.   (* byte span of a token *)

Inductive stmt :=
| SLit (c : cell) (p : pos)
| SPrim (w : string) (p : pos)
| SCall (f : nat) (p : pos)
| SGet (a : nat) (p : pos)
| SSet (a : nat) (p : pos)
| SLocGet (i : nat) (p : pos)
| SLocSet (i : nat) (p : pos)
| SIf (p : pos) (t : list stmt)                 (* if t then *)
| SIfE (p : pos) (t e : list stmt)              (* if t else e then *)
| SCase (arms : list (list stmt * pos * list stmt)) (dflt : list stmt)
| SUntil (b : list stmt) (p : pos)
| SRepeat (b : list stmt)
| SWhile (c : list stmt) (p : pos) (b : list stmt)
| SDo (p : pos) (b : list stmt) (pl : pos)
| SBreak
| SDef (f : nat).

(* ---------- parser ---------- *)
Inductive binding := BVar (a : nat) | BFun (f : nat) | BConst (c : cell).

Record penv := mkpenv {
  names : list (string * binding);      (* newest first *)
  funs : list (nat * list stmt);        (* function id -> body *)
  nfun : nat;
  nheap : nat;                          (* next heap index *)
  plocals : option (list string);       (* locals of the definition being parsed *)
  loopdepth : nat;                      (* enclosing begin / do constructs (for `break`) *)
  nest : nat;                           (* enclosing control structures of any kind (for `var`) *)
}.

Definition set_names e v := mkpenv v (funs e) (nfun e) (nheap e) (plocals e) (loopdepth e) (nest e).
Definition set_locals e v := mkpenv (names e) (funs e) (nfun e) (nheap e) v (loopdepth e) (nest e).
Definition enter (e : penv) (is_loop : bool) : penv :=
  mkpenv (names e) (funs e) (nfun e) (nheap e) (plocals e) (if is_loop then S (loopdepth e) else loopdepth e) (S (nest e)).
(* leave a nested block: keep what was declared inside, restore the nesting counters of [o] *)
Definition leave (o e : penv) : penv :=
  mkpenv (names e) (funs e) (nfun e) (nheap e) (plocals e) (loopdepth o) (nest o).

Fixpoint lookup (l : list (string * binding)) (n : string) : option binding :=
  match l with
  | [] => None
  | (k, b) :: r => if String.eqb k n then Some b else lookup r n
  end.

Fixpoint rpos (l : list string) (n : string) (i : nat) (acc : option nat) : option nat :=
  match l with
  | [] => acc
  | x :: r => rpos r n (S i) (if String.eqb x n then Some i else acc)
  end.

Definition keywords : list string :=
  ["if"; "else"; "then"; "case"; "of"; "endof"; "endcase"; "begin"; "while"; "until"; "repeat"; "break";
   "do"; "loop"; ":"; ";"; "local"; "var"; "!"; "nil"].

(* immediates of the dictionary that this grammar does not cover *)
Definition other_immediates : list string :=
  ["["; "]"; "{"; "}"; "late"; "immediate"; "#("; "#)"; "~)"; "const"; "foreach"; "defined"; "let"; "include"; "require";
   "^{"; "^}"; "^hex"; "^dec"; "^oct"; "^bin"; "fmt/prefix"; "fmt/tags"; "fmt/upcase"; "see"; "enum"; "endenum"].

Definition mem (l : list string) (n : string) : bool := existsb (String.eqb n) l.

Inductive pres :=
| POk (body : list stmt) (term : string) (tp : pos) (rest : list (tok * nat * nat)) (e : penv) (brk : bool)
| PErr (k : ekind)
| PUnsup.

Fixpoint skipb (l : list (tok * nat * nat)) : list (tok * nat * nat) :=
  match l with
  | (TWs, _, _) :: r => skipb r
  | (TComment, _, _) :: r => skipb r
  | _ => l
  end.

Section Parse.
  Variable fo : fops.
  Variable parse_real : string -> option Z.

  Definition is_native (w : string) : bool :=
    match native_fn fo w with Some _ => true | None => false end.

  (* parse statements up to one of [terms] (or the end of input: term = "") *)
  Fixpoint pseq (fuel : nat) (toks : list (tok * nat * nat)) (e : penv) (terms : list string)
           (acc : list stmt) (brk : bool) : pres :=
    match fuel with
    | O => PUnsup
    | S f =>
      match toks with
      | [] => POk (rev acc) "" (0, 0)%nat [] e brk
      | (t, a, b) :: rest =>
        let p := (a, b) in
        match t with
        | TWs | TComment => pseq f rest e terms acc brk
        | TEnd => POk (rev acc) "" p [] e brk
        | TErr _ _ _ => PErr EParse
        | TLit c => pseq f rest e terms (SLit c p :: acc) brk
        | TReal txt =>
          match parse_real txt with
          | Some r => pseq f rest e terms (SLit (CReal r) p :: acc) brk
          | None => PErr EParse
          end
        | TWord w =>
          (* locals of the enclosing definition first *)
          match (match plocals e with Some ls => rpos ls w 0 None | None => None end) with
          | Some i => pseq f rest e terms (SLocGet i p :: acc) brk
          | None =>
            match lookup (names e) w with
            | Some (BVar x) => pseq f rest e terms (SGet x p :: acc) brk
            | Some (BFun g) => pseq f rest e terms (SCall g p :: acc) brk
            | Some (BConst c) => pseq f rest e terms (SLit c p :: acc) brk
            | None =>
              if mem terms w then POk (rev acc) w p rest e brk
              else if String.eqb w "if" then
                match pseq f rest (enter e false) ["else"; "then"] [] false with
                | POk tb "else" _ r1 e1 b1 =>
                  match pseq f r1 e1 ["then"] [] false with
                  | POk eb "then" _ r2 e2 b2 => pseq f r2 (leave e e2) terms (SIfE p tb eb :: acc) (brk || b1 || b2)
                  | POk _ _ _ _ _ _ => PErr EFlow
                  | x => x
                  end
                | POk tb "then" _ r1 e1 b1 => pseq f r1 (leave e e1) terms (SIf p tb :: acc) (brk || b1)
                | POk _ _ _ _ _ _ => PErr EFlow
                | x => x
                end
              else if String.eqb w "case" then
                (fix arms (k : nat) (toks : list (tok * nat * nat)) (e' : penv)
                     (got : list (list stmt * pos * list stmt)) (brk' : bool) : pres :=
                   match k with
                   | O => PUnsup
                   | S k' =>
                     match pseq f toks e' ["of"; "endcase"] [] false with
                     | POk pre "of" pof r1 e1 b1 =>
                       match pseq f r1 e1 ["endof"] [] false with
                       | POk body "endof" _ r2 e2 b2 => arms k' r2 e2 (got ++ [(pre, pof, body)])%list (brk' || b1 || b2)
                       | POk _ _ _ _ _ _ => PErr EFlow
                       | x => x
                       end
                     | POk dflt "endcase" _ r1 e1 b1 =>
                       pseq f r1 (leave e e1) terms (SCase got dflt :: acc) (brk' || b1)
                     | POk _ _ _ _ _ _ => PErr EFlow
                     | x => x
                     end
                   end) fuel rest (enter e false) [] brk
              else if String.eqb w "begin" then
                match pseq f rest (enter e true) ["until"; "repeat"; "while"] [] false with
                | POk body "until" pu r1 e1 b1 =>
                  if b1 then PErr EFlow     (* `until` finds a pending break *)
                  else pseq f r1 (leave e e1) terms (SUntil body pu :: acc) brk
                | POk body "repeat" _ r1 e1 _ => pseq f r1 (leave e e1) terms (SRepeat body :: acc) brk
                | POk cond "while" pw r1 e1 bc =>
                  if bc then PErr EFlow       (* `repeat` expects the Begin right below the While: a break in the condition part is refused *)
                  else
                  match pseq f r1 e1 ["repeat"] [] false with
                  | POk body "repeat" _ r2 e2 _ => pseq f r2 (leave e e2) terms (SWhile cond pw body :: acc) brk
                  | POk _ _ _ _ _ _ => PErr EFlow
                  | x => x
                  end
                | POk _ _ _ _ _ _ => PErr EFlow
                | x => x
                end
              else if String.eqb w "do" then
                match pseq f rest (enter e true) ["loop"] [] false with
                | POk body "loop" pl r1 e1 _ => pseq f r1 (leave e e1) terms (SDo p body pl :: acc) brk
                | POk _ _ _ _ _ _ => PErr EFlow
                | x => x
                end
              else if String.eqb w "break" then
                if (0 <? loopdepth e)%nat then pseq f rest e terms (SBreak :: acc) true else PErr EFlow
              else if String.eqb w ":" then
                match plocals e with
                | Some _ => PUnsup            (* a definition inside a definition *)
                | None =>
                  match skipb rest with
                  | (TWord name, _, _) :: r0 =>
                    let g := nfun e in
                    let e0 := mkpenv ((name, BFun g) :: names e) (funs e) (S g) (nheap e) (Some []) (loopdepth e) (S (nest e)) in
                    match pseq f r0 e0 [";"] [] false with
                    | POk body ";" _ r1 e1 b1 =>
                      if b1 then PErr EFlow     (* `;` finds a pending break *)
                      else
                        let e2 := mkpenv (names e1) ((g, body) :: funs e1) (nfun e1) (nheap e1) None (loopdepth e) (nest e) in
                        pseq f r1 e2 terms (SDef g :: acc) brk
                    | POk _ _ _ _ _ _ => PErr EFlow
                    | x => x
                    end
                  | _ => PErr EExpectName
                  end
                end
              else if String.eqb w "local" then
                match skipb rest with
                | (TWord name, na, nb) :: r0 =>
                  (* the instruction is attributed to the NAME token (the last token read when it is emitted) *)
                  match plocals e with
                  | Some ls => pseq f r0 (set_locals e (Some (ls ++ [name])%list)) terms (SLocSet (length ls) (na, nb) :: acc) brk
                  | None => PErr EFlow
                  end
                | _ => PErr EExpectName
                end
              else if String.eqb w "var" then
                match skipb rest with
                | (TWord name, na, nb) :: r0 =>
                  if (0 <? nest e)%nat then PErr EFlow
                  else
                    let a := nheap e in
                    let e1 := mkpenv ((name, BVar a) :: names e) (funs e) (nfun e) (S a) (plocals e) (loopdepth e) (nest e) in
                    pseq f r0 e1 terms (SSet a (na, nb) :: acc) brk
                | _ => PErr EExpectName
                end
              else if String.eqb w "!" then
                match skipb rest with
                | (TWord name, na, nb) :: r0 =>
                  match lookup (names e) name with
                  | Some (BVar x) => pseq f r0 e terms (SSet x (na, nb) :: acc) brk
                  | Some _ => PErr EReadonly
                  | None => if is_native name || mem keywords name || mem other_immediates name
                            then PErr EReadonly else PErr EUnknown
                  end
                | _ => PErr EExpectName
                end
              else if String.eqb w "nil" then pseq f rest e terms (SLit CNil p :: acc) brk
              else if String.eqb w "true" then pseq f rest e terms (SLit (CFlag true) p :: acc) brk
              else if String.eqb w "false" then pseq f rest e terms (SLit (CFlag false) p :: acc) brk
              else if mem keywords w then PErr EFlow         (* a closer without its opener *)
              else if mem other_immediates w then PUnsup
              else if is_native w then pseq f rest e terms (SPrim w p :: acc) brk
              else PErr EUnknown
            end
          end
        end
      end
    end.
End Parse.

(* ---------- structural evaluation ---------- *)
Inductive sres :=
| SDone (s : state)
| SBroke (s : state)
| SFail (k : ekind) (pl : option cell) (p : pos) (s : state)
| SOut                               (* out of fuel *)
| SUnsup.

Section Eval.
  Variable fo : fops.
  Variable funs : list (nat * list stmt).

  Fixpoint fun_body (l : list (nat * list stmt)) (g : nat) : option (list stmt) :=
    match l with
    | [] => None
    | (k, b) :: r => if (k =? g)%nat then Some b else fun_body r g
    end.

  Definition run_m {A} (m : M A) (p : pos) (s : state) (k : A -> state -> sres) : sres :=
    match m s with
    | ROk a s' => k a s'
    | RErr kd pl s' => SFail kd pl p s'
    | RPanic => SUnsup
    | RUnsup => SUnsup
    end.

  Fixpoint sblock (fuel : nat) (l : list stmt) (s : state) : sres :=
    match fuel with
    | O => SOut
    | S f =>
      match l with
      | [] => SDone s
      | x :: r =>
        match sstmt f x s with
        | SDone s' => sblock f r s'
        | other => other
        end
      end
    end
  with sstmt (fuel : nat) (x : stmt) (s : state) : sres :=
    match fuel with
    | O => SOut
    | S f =>
      match x with
      | SLit c p => run_m (push_data c) p s (fun _ s' => SDone s')
      | SPrim w p =>
        match native_fn fo w with
        | Some m => run_m m p s (fun _ s' => SDone s')
        | None => SUnsup
        end
      | SGet a p => run_m (let* v := get_var a in push_data v) p s (fun _ s' => SDone s')
      | SSet a p => run_m (let* v := pop_data in set_var a v) p s (fun _ s' => SDone s')
      | SLocSet i p => run_m (let* v := pop_data in init_local i v) p s (fun _ s' => SDone s')
      | SLocGet i p =>
        run_m (let* fr := top_frame in
               match nth_error (locals fr) i with
               | Some v => push_data v
               | None => fail ELocalOob None
               end) p s (fun _ s' => SDone s')
      | SDef _ => SDone s
      | SBreak => SBroke s
      | SCall g p =>
        match fun_body funs g with
        | None => SUnsup
        | Some body =>
          run_m (push_return (mkframe 0 0 [])) p s (fun _ s1 =>
            match sblock f body s1 with
            | SDone s2 => run_m pop_return p s2 (fun _ s3 => SDone s3)
            | other => other
            end)
        end
      | SIf p t =>
        run_m (let* c := pop_data in m_cond c) p s (fun b s1 => if b then sblock f t s1 else SDone s1)
      | SIfE p t e =>
        run_m (let* c := pop_data in m_cond c) p s (fun b s1 => if b then sblock f t s1 else sblock f e s1)
      | SUntil b p =>
        match sblock f b s with
        | SDone s1 =>
          run_m (let* c := pop_data in m_cond c) p s1 (fun c s2 => if c then SDone s2 else sstmt f x s2)
        | other => other
        end
      | SRepeat b =>
        match sblock f b s with
        | SDone s1 => sstmt f x s1
        | SBroke s1 => SDone s1
        | other => other
        end
      | SWhile c p b =>
        match sblock f c s with
        | SDone s1 =>
          run_m (let* v := pop_data in m_cond v) p s1 (fun go s2 =>
            if go then
              match sblock f b s2 with
              | SDone s3 => sstmt f x s3
              | SBroke s3 => SDone s3
              | other => other
              end
            else SDone s2)
        | SBroke s1 => SDone s1
        | other => other
        end
      | SDo p b pl =>
        run_m do_init p s (fun l s1 =>
          if (l_end l <=? l_start l)%Z then SDone s1
          else
            run_m (push_loop l) p s1 (fun _ s2 =>
              (fix iter (k : nat) (s : state) : sres :=
                 match k with
                 | O => SOut
                 | S k' =>
                   match sblock f b s with
                   | SDone s3 =>
                     run_m loop_next pl s3 (fun more s4 =>
                       if more then iter k' s4 else run_m pop_loop pl s4 (fun _ s5 => SDone s5))
                   | SBroke s3 => run_m pop_loop pl s3 (fun _ s4 => SDone s4)
                   | other => other
                   end
                 end) f s2))
      | SCase arms dflt =>
        (fix go (arms : list (list stmt * pos * list stmt)) (s : state) : sres :=
           match arms with
           | [] => sblock f dflt s
           | (pre, pof, body) :: r =>
             match sblock f pre s with
             | SDone s1 =>
               run_m (let* a := pop_data in let* b := top_data in ret (cell_eqb a b)) pof s1 (fun eq s2 =>
                 if eq then run_m pop_data pof s2 (fun _ s3 => sblock f body s3)
                 else go r s2)
             | other => other
             end
           end) arms s
      end
    end.
End Eval.

(* the whole thing: parse a source and evaluate it structurally from a state *)
Inductive c01res :=
| CBuildErr (k : ekind)
| CRun (r : sres)
| CUnsupported.

(* the parsed program of a source: (top-level statements, function bodies, number of heap cells after it) *)
Definition parse_source (fo : fops) (parse_real : string -> option Z) (src : string) (heap0 : nat)
  : option (list stmt * list (nat * list stmt) * nat) :=
  let toks := lex_string src in
  let e0 := mkpenv [] [] 0 heap0 None 0 0 in
  match pseq fo parse_real (S (S (length toks))) toks e0 [] [] false with
  | POk body "" _ _ e _ => Some (body, funs e, nheap e)
  | _ => None
  end.

(* ---------- the direct (jump-resolved) compiler from the tree to bytecode ---------- *)
(* what `break` compiles to depends on the innermost enclosing loop *)
Inductive brk_ctx :=
| BNone
| BJump (target : nat)     (* begin ... repeat: jump to the cell after the closing Jump *)
| BLoop (target : nat).    (* do ... loop: Break opcode to the cell after the Loop *)

Section Layout.
  Local Infix "+++" := (@app opcode) (at level 60, right associativity).
  Variable faddr : nat -> nat.    (* address of a function's first instruction *)

  Definition rel (from to : nat) : Z := (Z.of_nat to - Z.of_nat from)%Z.

  Fixpoint size_stmt (x : stmt) : nat :=
    let sb := fix sb (l : list stmt) : nat := match l with [] => 0 | y :: r => size_stmt y + sb r end in
    match x with
    | SLit _ _ | SPrim _ _ | SCall _ _ | SGet _ _ | SSet _ _ | SLocGet _ _ | SLocSet _ _ | SBreak => 1
    | SIf _ t => 1 + sb t
    | SIfE _ t e => 2 + sb t + sb e
    | SCase arms d =>
      (fix go (l : list (list stmt * pos * list stmt)) : nat :=
         match l with
         | [] => 0
         | (pre, _, body) :: r => sb pre + 1 + sb body + 1 + go r
         end) arms + sb d
    | SUntil b _ => sb b + 1
    | SRepeat b => sb b + 1
    | SWhile c _ b => sb c + 1 + sb b + 1
    | SDo _ b _ => 1 + sb b + 1
    | SDef _ => 0      (* definitions are laid out separately; the marker itself emits nothing here *)
    end.
  Fixpoint size_block (l : list stmt) : nat :=
    match l with
    | [] => 0
    | x :: r => size_stmt x + size_block r
    end.

  (* [org] is the address of the first emitted cell *)
  Fixpoint lay_stmt (x : stmt) (org : nat) (bc : brk_ctx) {struct x} : list opcode :=
    let lb := fix lb (l : list stmt) (o : nat) (bc : brk_ctx) : list opcode :=
                match l with
                | [] => []
                | y :: r => lay_stmt y o bc +++ lb r (o + size_stmt y) bc
                end in
    match x with
    | SLit c _ => [load_value_opcode c]
    | SPrim w _ => [ONative w]
    | SCall g _ => [OCall (faddr g)]
    | SGet a _ => [OLoad a]
    | SSet a _ => [OStore a]
    | SLocGet i _ => [OLoadLocal i]
    | SLocSet i _ => [OInitLocal i]
    | SBreak =>
      match bc with
      | BJump t => [OJump (rel org t)]
      | BLoop t => [OBreak (rel org t)]
      | BNone => [ONop]
      end
    | SIf _ t => OJumpIfNot (Z.of_nat (1 + size_block t)) :: lb t (S org) bc
    | SIfE _ t e =>
      (OJumpIfNot (Z.of_nat (2 + size_block t)) :: lb t (S org) bc)
      +++ (OJump (Z.of_nat (1 + size_block e)) :: lb e (org + 2 + size_block t) bc)
    | SCase arms d =>
      let total := size_stmt x in
      (fix go (l : list (list stmt * pos * list stmt)) (o : nat) : list opcode :=
         match l with
         | [] => lb d o bc
         | (pre, _, body) :: r =>
           let o1 := o + size_block pre in
           let o2 := S o1 + size_block body in
           lb pre o bc +++ (OCaseOf (Z.of_nat (2 + size_block body)) :: lb body (S o1) bc)
           +++ (OJump (rel o2 (org + total)) :: go r (S o2))
         end) arms org
    | SUntil b _ => lb b org BNone +++ [OJumpIfNot (- Z.of_nat (size_block b))%Z]
    | SRepeat b =>
      let n := size_block b in
      lb b org (BJump (org + n + 1)) +++ [OJump (- Z.of_nat n)%Z]
    | SWhile c _ b =>
      let nc := size_block c in
      let nb := size_block b in
      let endp := org + nc + 1 + nb + 1 in
      lb c org (BJump endp) +++ (OJumpIfNot (Z.of_nat (nb + 2)) :: lb b (org + nc + 1) (BJump endp))
      +++ [OJump (- Z.of_nat (nc + 1 + nb))%Z]
    | SDo _ b _ =>
      let nb := size_block b in
      (ODo (Z.of_nat (nb + 2)) :: lb b (S org) (BLoop (org + nb + 2))) +++ [OLoop (- Z.of_nat nb)%Z]
    | SDef _ => []
    end.
  Fixpoint lay_block (l : list stmt) (org : nat) (bc : brk_ctx) : list opcode :=
    match l with
    | [] => []
    | x :: r => lay_stmt x org bc +++ lay_block r (org + size_stmt x) bc
    end.
End Layout.

(* whole programs: definitions (top level only) are laid out inline behind a jump *)
Fixpoint nested_def (x : stmt) : bool :=
  let nb := fix nb (l : list stmt) : bool := match l with [] => false | y :: r => nested_def y || nb r end in
  match x with
  | SDef _ => true
  | SIf _ t => nb t
  | SIfE _ t e => nb t || nb e
  | SCase arms d =>
    (fix go (l : list (list stmt * pos * list stmt)) : bool :=
       match l with [] => false | (pre, _, body) :: r => nb pre || nb body || go r end) arms || nb d
  | SUntil b _ | SRepeat b | SDo _ b _ => nb b
  | SWhile c _ b => nb c || nb b
  | _ => false
  end.

Section Program.
  Variable funs : list (nat * list stmt).
  Definition body_of (g : nat) : list stmt :=
    match fun_body funs g with Some b => b | None => [] end.

  Fixpoint def_addrs (l : list stmt) (org : nat) : list (nat * nat) :=
    match l with
    | [] => []
    | SDef g :: r => (g, S org) :: def_addrs r (org + size_block (body_of g) + 2)
    | x :: r => def_addrs r (org + size_stmt x)
    end.

  Fixpoint addr_lookup (m : list (nat * nat)) (g : nat) : nat :=
    match m with
    | [] => 0
    | (k, a) :: r => if (k =? g)%nat then a else addr_lookup r g
    end.

  Fixpoint lay_top (faddr : nat -> nat) (l : list stmt) (org : nat) : list opcode :=
    match l with
    | [] => []
    | SDef g :: r =>
      let b := body_of g in
      ((OJump (Z.of_nat (size_block b + 2)) :: lay_block faddr b (S org) BNone) ++ (ORet :: lay_top faddr r (org + size_block b + 2)))%list
    | x :: r => (lay_stmt faddr x org BNone ++ lay_top faddr r (org + size_stmt x))%list
    end.

  Definition well_placed (l : list stmt) : bool :=
    forallb (fun x => match x with SDef _ => true | _ => negb (nested_def x) end) l &&
    forallb (fun gb => forallb (fun x => negb (nested_def x)) (snd gb)) funs.

  Definition layout_program (l : list stmt) (org : nat) : option (list opcode) :=
    if well_placed l then Some (lay_top (addr_lookup (def_addrs l org)) l org) else None.
End Program.

Definition seval_source (fo : fops) (parse_real : string -> option Z) (fuel : nat) (src : string) (s : state) : c01res :=
  let toks := lex_string src in
  let e0 := mkpenv [] [] 0 (length (heap s)) None 0 0 in
  match pseq fo parse_real (S (S (length toks))) toks e0 [] [] false with
  | PErr k => CBuildErr k
  | PUnsup => CUnsupported
  | POk body "" _ _ e _ =>
    (* variables declared by the source exist (as nil) before any of its code runs *)
    let s0 := set_heap s (heap s ++ repeat CNil (nheap e - length (heap s)))%list in
    CRun (sblock fo (funs e) fuel body s0)
  | POk _ _ _ _ _ _ => CBuildErr EFlow
  end.
