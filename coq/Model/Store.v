(* Store.v: the ownership protocol of bit-string buffers (Rc<Cow<[u8]>> in bitstr.rs) made
   explicit: buffers live in a store with a strong count; a handle is a bit range plus a
   pointer.  The operations follow the Rust code: clone / drop of handles, range operations,
   detach (in place iff the owner is unique), data_mut (Rc::make_mut + Cow::to_mut: copy iff
   shared or borrowed), append, insert, invert.  Used by C03 / C04: an operation on one handle
   never changes what another live handle denotes. *)
From Xeh Require Import Model.Prelude Model.Bits.

Record buf := mkbuf { bbytes : list N; strong : nat; borrowed : bool }.
Definition store := list buf.            (* pointer = index; freed buffers keep strong = 0 *)
Record handle := mkh { hptr : nat; hstart : nat; hend : nat }.

Definition empty_buf : buf := mkbuf [] 0 false.
Definition sget (st : store) (p : nat) : buf := nth p st empty_buf.

Fixpoint sset (st : store) (p : nat) (b : buf) : store :=
  match st, p with
  | [], _ => []
  | _ :: r, O => b :: r
  | x :: r, S q => x :: sset r q b
  end.

(* what a handle denotes *)
Definition view (st : store) (h : handle) : cbs := mkcbs (hstart h) (hend h) (bbytes (sget st (hptr h))).
Definition habs (st : store) (h : handle) : list bool := abs (view st h).

Definition alloc (st : store) (d : list N) (is_borrowed : bool) : store * nat :=
  (st ++ [mkbuf d 1 is_borrowed], length st).

Definition incr (st : store) (p : nat) : store :=
  let b := sget st p in sset st p (mkbuf (bbytes b) (S (strong b)) (borrowed b)).
Definition decr (st : store) (p : nat) : store :=
  let b := sget st p in sset st p (mkbuf (bbytes b) (strong b - 1) (borrowed b)).

(* Bitstr::from(Vec) / from(&'static [u8]) *)
Definition h_new (st : store) (d : list N) (is_borrowed : bool) : store * handle :=
  let '(st', p) := alloc st d is_borrowed in (st', mkh p 0 (8 * length d)).

(* Clone for Bitstr: the handle is copied, the buffer shared *)
Definition h_clone (st : store) (h : handle) : store * handle := (incr st (hptr h), h).
Definition h_drop (st : store) (h : handle) : store := decr st (hptr h).

(* substr / seek / peek / read results: a clone with another range *)
Definition h_substr (st : store) (h : handle) (s e : nat) : option (store * handle) :=
  match substr (view st h) s e with
  | Some _ => Some (incr st (hptr h), mkh (hptr h) s e)
  | None => None
  end.

(* detach consumes its handle *)
Definition h_detach (st : store) (h : handle) : store * handle :=
  if (strong (sget st (hptr h)) =? 1) && (hstart h =? 0) then (st, h)
  else
    let c := detach false (view st h) in
    let '(st1, p) := alloc (decr st (hptr h)) (cdata c) false in
    (st1, mkh p (cstart c) (cend c)).

(* data_mut: afterwards the handle's buffer is uniquely owned and owned (not borrowed) *)
Definition h_make_mut (st : store) (h : handle) : store * handle :=
  let b := sget st (hptr h) in
  if strong b =? 1 then
    (sset st (hptr h) (mkbuf (bbytes b) 1 false), h)      (* Cow::to_mut copies a borrowed slice in place of the Cow *)
  else
    let '(st1, p) := alloc (decr st (hptr h)) (bbytes b) false in
    (st1, mkh p (hstart h) (hend h)).

(* append_bits_mut consumes [h]; [t] is only read *)
Definition h_append_bits_mut (st : store) (h t : handle) : store * handle :=
  let '(st1, h1) := h_make_mut st h in
  let c := append_bits_mut (view st1 h1) (view st1 t) in
  let b := sget st1 (hptr h1) in
  (sset st1 (hptr h1) (mkbuf (cdata c) (strong b) false), mkh (hptr h1) (cstart c) (cend c)).

Definition h_append (st : store) (h t : handle) : store * handle :=
  let '(st1, h1) := h_detach st h in h_append_bits_mut st1 h1 t.

Definition h_invert (st : store) (h : handle) : store * handle :=
  let '(st1, h1) := h_detach st h in
  let '(st2, h2) := h_make_mut st1 h1 in
  let v := view st2 h2 in
  let d := xor_bits (cdata v) (cstart v) (clen v) in
  let b := sget st2 (hptr h2) in
  (sset st2 (hptr h2) (mkbuf d (strong b) false), h2).

(* insert: split_at clones the handle twice, then self is dropped *)
Definition h_insert (st : store) (h : handle) (i : nat) (s : handle) : option (store * handle) :=
  match split_at (view st h) i with
  | None => None
  | Some (l, r) =>
    let st1 := incr (incr st (hptr h)) (hptr h) in
    let hl := mkh (hptr h) (cstart l) (cend l) in
    let hr := mkh (hptr h) (cstart r) (cend r) in
    let '(st2, h2) := h_detach st1 hl in
    let '(st3, h3) := h_append_bits_mut st2 h2 s in
    let '(st4, h4) := h_append_bits_mut st3 h3 hr in
    (* the temporaries: the right part and the original value *)
    Some (decr (decr st4 (hptr h)) (hptr h), h4)
  end.

(* ---------- the invariant: strong counts are exactly the live handles ---------- *)
Fixpoint count_ptr (p : nat) (live : list handle) : nat :=
  match live with
  | [] => 0
  | h :: r => (if hptr h =? p then 1 else 0) + count_ptr p r
  end.

Definition handle_wf (st : store) (h : handle) : Prop :=
  hptr h < length st /\ wf (view st h).

Definition store_inv (st : store) (live : list handle) : Prop :=
  (forall p, p < length st -> strong (sget st p) = count_ptr p live) /\
  Forall (handle_wf st) live.

(* ---------- an operation language for the correspondence check ---------- *)
Inductive pop :=
| PNew (d : list N) (is_borrowed : bool)
| PClone (i : nat)
| PDrop (i : nat)
| PSubstr (i s e : nat)
| PDetach (i : nat)
| PAppend (i j : nat)       (* consumes handle i, reads j *)
| PInvert (i : nat)
| PInsert (i k j : nat).    (* consumes handle i *)

Fixpoint remove_nth {A} (l : list A) (i : nat) : list A :=
  match l, i with
  | [], _ => []
  | _ :: r, O => r
  | x :: r, S j => x :: remove_nth r j
  end.

(* the pool of live handles; a consuming operation replaces handle i by its result *)
Definition pool_step (sp : store * list handle) (o : pop) : store * list handle :=
  let '(st, live) := sp in
  let geth i := nth i live (mkh 0 0 0) in
  match o with
  | PNew d b => let '(st', h) := h_new st d b in (st', live ++ [h])
  | PClone i => if i <? length live then let '(st', h) := h_clone st (geth i) in (st', live ++ [h]) else sp
  | PDrop i => if i <? length live then (h_drop st (geth i), remove_nth live i) else sp
  | PSubstr i s e =>
    if i <? length live then
      match h_substr st (geth i) s e with
      | Some (st', h) => (st', live ++ [h])
      | None => sp
      end
    else sp
  | PDetach i =>
    if i <? length live then let '(st', h) := h_detach st (geth i) in (st', remove_nth live i ++ [h]) else sp
  | PAppend i j =>
    if (i <? length live) && (j <? length live) && negb (i =? j) then
      let '(st', h) := h_append st (geth i) (geth j) in (st', remove_nth live i ++ [h])
    else sp
  | PInvert i =>
    if i <? length live then let '(st', h) := h_invert st (geth i) in (st', remove_nth live i ++ [h]) else sp
  | PInsert i k j =>
    if (i <? length live) && (j <? length live) && negb (i =? j) then
      match h_insert st (geth i) k (geth j) with
      | Some (st', h) => (st', remove_nth live i ++ [h])
      | None => sp
      end
    else sp
  end.

Definition pool_run (ops : list pop) : store * list handle := fold_left pool_step ops ([], []).
Definition pool_view (sp : store * list handle) : list (list bool) := map (habs (fst sp)) (snd sp).
