(* Vm.v: mirror of the virtual machine of /repo/src/state.rs: machine state,
   the logging primitives, reverse_changes / rnext, fetch_and_run, next, run.
   Native words live in Words.v and are looked up through [native_fn]. *)
From Xeh Require Import Model.Prelude Model.Bits Model.Codec Model.Cell Model.Lexer Model.Fmt.
Local Notation length := List.length.

(* ---------- data ---------- *)
Record frame := mkframe { fn_addr : nat; return_to : nat; locals : list cell }.
Record loopr := mkloop { l_items : cell; l_start : Z; l_end : Z }.

Inductive rstep :=
| RSetIp (ip : nat)
| RPushData (c : cell)
| RPopData
| RSwapData
| RRotData
| ROverData
| RPopReturn
| RPushReturn (f : frame)
| RPopLoop
| RPushLoop (l : loopr)
| RLoopNextBack (l : loopr)
| RPopSpecial
| RPushSpecial (p : nat)
| RSetLocals (l : list cell)       (* D3 repair: the frame's previous locals *)
| RSwapRef (r : nat) (c : cell).

Inductive mode := MCompile | MEval | MMeta.
Definition mode_eqb (a b : mode) : bool :=
  match a, b with
  | MCompile, MCompile | MEval, MEval | MMeta, MMeta => true
  | _, _ => false
  end.

Record ctx := mkctx {
  ds_len : nat; cs_len : nat; rs_len : nat; fs_len : nat; ls_len : nat; ss_ptr : nat;
  di_len : nat; cip : nat; cmode : mode }.

Inductive opcode :=
| ONop
| OCall (a : nat)
| OResolve (name : string)
| ONative (w : string)
| ORet
| OJumpIf (rel : Z)
| OJumpIfNot (rel : Z)
| OJump (rel : Z)
| ODo (rel : Z)
| OBreak (rel : Z)
| OLoop (rel : Z)
| OCaseOf (rel : Z)
| OLoad (a : nat)
| OLoadNil
| OLoadI64 (z : Z)
| OLoadF64 (r : Z)
| OLoadStr (s : string)
| OLoadCell (c : cell)
| OStore (a : nat)
| OInitLocal (i : nat)
| OLoadLocal (i : nat).

Inductive entry :=
| DConst (c : cell)
| DVar (a : nat)
| DFun (imm : bool) (f : fnref) (len : option nat).

Record dentry := mkdent { dname : string; dent : entry }.

Inductive flow :=
| FIf (o : nat) | FElse (o : nat) | FBegin (o : nat) | FWhile (o : nat) | FBreak (o : nat)
| FCase | FCaseOf (o : nat) | FCaseEndOf (o : nat)
| FVec | FMap | FTags
| FFun (dict_idx start : nat) (flocals : list string)
| FDo (for_org body_org : nat)
| FEnum (name : string) (fields : list (string * Z)).

(* a token of a source: (source index, byte start, byte end) *)
Definition tokref : Type := nat * nat * nat.

(* an input lexer with the index of the source it reads *)
Record inlex := mkinlex { in_src : nat; in_lex : lexst }.

Record state := mkstate {
  dict : list dentry;          (* oldest first, as the Vec *)
  heap : list cell;
  code : list opcode;
  dbg : list tokref;
  sources : list string;       (* source texts; names are <buffer#i> *)
  input : list inlex;          (* head = innermost (last pushed) *)
  ds : list cell;              (* head = top *)
  rs : list frame;             (* head = top *)
  flows : list flow;           (* head = top *)
  loops : list loopr;          (* head = top *)
  special : list nat;          (* head = top *)
  cx : ctx;
  nested : list ctx;           (* head = innermost *)
  meter : Z;
  insn_limit : option Z;
  heap_limit : option Z;
  stack_limit : option Z;
  rlog : option (list rstep);  (* head = newest *)
  out : string;                (* intercepted stdout *)
  last_tok : option tokref;
  stopping : bool;             (* about_to_stop *)
}.

(* functional updates *)
Definition set_ds (s : state) (v : list cell) : state :=
  mkstate (dict s) (heap s) (code s) (dbg s) (sources s) (input s) v (rs s) (flows s) (loops s) (special s)
          (cx s) (nested s) (meter s) (insn_limit s) (heap_limit s) (stack_limit s) (rlog s) (out s) (last_tok s) (stopping s).
Definition set_rs (s : state) (v : list frame) : state :=
  mkstate (dict s) (heap s) (code s) (dbg s) (sources s) (input s) (ds s) v (flows s) (loops s) (special s)
          (cx s) (nested s) (meter s) (insn_limit s) (heap_limit s) (stack_limit s) (rlog s) (out s) (last_tok s) (stopping s).
Definition set_loops (s : state) (v : list loopr) : state :=
  mkstate (dict s) (heap s) (code s) (dbg s) (sources s) (input s) (ds s) (rs s) (flows s) v (special s)
          (cx s) (nested s) (meter s) (insn_limit s) (heap_limit s) (stack_limit s) (rlog s) (out s) (last_tok s) (stopping s).
Definition set_special (s : state) (v : list nat) : state :=
  mkstate (dict s) (heap s) (code s) (dbg s) (sources s) (input s) (ds s) (rs s) (flows s) (loops s) v
          (cx s) (nested s) (meter s) (insn_limit s) (heap_limit s) (stack_limit s) (rlog s) (out s) (last_tok s) (stopping s).
Definition set_heap (s : state) (v : list cell) : state :=
  mkstate (dict s) v (code s) (dbg s) (sources s) (input s) (ds s) (rs s) (flows s) (loops s) (special s)
          (cx s) (nested s) (meter s) (insn_limit s) (heap_limit s) (stack_limit s) (rlog s) (out s) (last_tok s) (stopping s).
Definition set_code (s : state) (v : list opcode) : state :=
  mkstate (dict s) (heap s) v (dbg s) (sources s) (input s) (ds s) (rs s) (flows s) (loops s) (special s)
          (cx s) (nested s) (meter s) (insn_limit s) (heap_limit s) (stack_limit s) (rlog s) (out s) (last_tok s) (stopping s).
Definition set_dbg (s : state) (v : list tokref) : state :=
  mkstate (dict s) (heap s) (code s) v (sources s) (input s) (ds s) (rs s) (flows s) (loops s) (special s)
          (cx s) (nested s) (meter s) (insn_limit s) (heap_limit s) (stack_limit s) (rlog s) (out s) (last_tok s) (stopping s).
Definition set_dict (s : state) (v : list dentry) : state :=
  mkstate v (heap s) (code s) (dbg s) (sources s) (input s) (ds s) (rs s) (flows s) (loops s) (special s)
          (cx s) (nested s) (meter s) (insn_limit s) (heap_limit s) (stack_limit s) (rlog s) (out s) (last_tok s) (stopping s).
Definition set_flows (s : state) (v : list flow) : state :=
  mkstate (dict s) (heap s) (code s) (dbg s) (sources s) (input s) (ds s) (rs s) v (loops s) (special s)
          (cx s) (nested s) (meter s) (insn_limit s) (heap_limit s) (stack_limit s) (rlog s) (out s) (last_tok s) (stopping s).
Definition set_cx (s : state) (v : ctx) : state :=
  mkstate (dict s) (heap s) (code s) (dbg s) (sources s) (input s) (ds s) (rs s) (flows s) (loops s) (special s)
          v (nested s) (meter s) (insn_limit s) (heap_limit s) (stack_limit s) (rlog s) (out s) (last_tok s) (stopping s).
Definition set_nested (s : state) (v : list ctx) : state :=
  mkstate (dict s) (heap s) (code s) (dbg s) (sources s) (input s) (ds s) (rs s) (flows s) (loops s) (special s)
          (cx s) v (meter s) (insn_limit s) (heap_limit s) (stack_limit s) (rlog s) (out s) (last_tok s) (stopping s).
Definition set_meter (s : state) (v : Z) : state :=
  mkstate (dict s) (heap s) (code s) (dbg s) (sources s) (input s) (ds s) (rs s) (flows s) (loops s) (special s)
          (cx s) (nested s) v (insn_limit s) (heap_limit s) (stack_limit s) (rlog s) (out s) (last_tok s) (stopping s).
Definition set_limits (s : state) (i h k : option Z) : state :=
  mkstate (dict s) (heap s) (code s) (dbg s) (sources s) (input s) (ds s) (rs s) (flows s) (loops s) (special s)
          (cx s) (nested s) (meter s) i h k (rlog s) (out s) (last_tok s) (stopping s).
Definition set_rlog (s : state) (v : option (list rstep)) : state :=
  mkstate (dict s) (heap s) (code s) (dbg s) (sources s) (input s) (ds s) (rs s) (flows s) (loops s) (special s)
          (cx s) (nested s) (meter s) (insn_limit s) (heap_limit s) (stack_limit s) v (out s) (last_tok s) (stopping s).
Definition set_out (s : state) (v : string) : state :=
  mkstate (dict s) (heap s) (code s) (dbg s) (sources s) (input s) (ds s) (rs s) (flows s) (loops s) (special s)
          (cx s) (nested s) (meter s) (insn_limit s) (heap_limit s) (stack_limit s) (rlog s) v (last_tok s) (stopping s).
Definition set_input (s : state) (v : list inlex) : state :=
  mkstate (dict s) (heap s) (code s) (dbg s) (sources s) v (ds s) (rs s) (flows s) (loops s) (special s)
          (cx s) (nested s) (meter s) (insn_limit s) (heap_limit s) (stack_limit s) (rlog s) (out s) (last_tok s) (stopping s).
Definition set_sources (s : state) (v : list string) : state :=
  mkstate (dict s) (heap s) (code s) (dbg s) v (input s) (ds s) (rs s) (flows s) (loops s) (special s)
          (cx s) (nested s) (meter s) (insn_limit s) (heap_limit s) (stack_limit s) (rlog s) (out s) (last_tok s) (stopping s).
Definition set_last_tok (s : state) (v : option tokref) : state :=
  mkstate (dict s) (heap s) (code s) (dbg s) (sources s) (input s) (ds s) (rs s) (flows s) (loops s) (special s)
          (cx s) (nested s) (meter s) (insn_limit s) (heap_limit s) (stack_limit s) (rlog s) (out s) v (stopping s).
Definition set_stopping (s : state) (v : bool) : state :=
  mkstate (dict s) (heap s) (code s) (dbg s) (sources s) (input s) (ds s) (rs s) (flows s) (loops s) (special s)
          (cx s) (nested s) (meter s) (insn_limit s) (heap_limit s) (stack_limit s) (rlog s) (out s) (last_tok s) v.

Definition set_ip_raw (s : state) (ip : nat) : state :=
  let c := cx s in
  set_cx s (mkctx (ds_len c) (cs_len c) (rs_len c) (fs_len c) (ls_len c) (ss_ptr c) (di_len c) ip (cmode c)).

Definition ip (s : state) : nat := cip (cx s).

(* ---------- results ---------- *)
Inductive res (A : Type) :=
| ROk (a : A) (s : state)
| RErr (k : ekind) (p : option cell) (s : state)   (* error kind, payload cell, state left behind *)
| RPanic
| RUnsup.                                            (* behaviour outside the model *)
Arguments ROk {A} a s.
Arguments RErr {A} k p s.
Arguments RPanic {A}.
Arguments RUnsup {A}.

Definition M (A : Type) : Type := state -> res A.
Definition ret {A} (a : A) : M A := fun s => ROk a s.
Definition bind {A B} (m : M A) (f : A -> M B) : M B :=
  fun s => match m s with
           | ROk a s' => f a s'
           | RErr k p s' => RErr k p s'
           | RPanic => RPanic
           | RUnsup => RUnsup
           end.
Definition fail {A} (k : ekind) (p : option cell) : M A := fun s => RErr k p s.
Definition unsup {A} : M A := fun _ => RUnsup.
Definition panic {A} : M A := fun _ => RPanic.
Definition get : M state := fun s => ROk s s.
Definition put (s' : state) : M unit := fun _ => ROk tt s'.
Definition modify (f : state -> state) : M unit := fun s => ROk tt (f s).

Notation "'let*' x := m 'in' k" := (bind m (fun x => k))
  (at level 200, x pattern, m at level 100, k at level 200, right associativity).
Notation "m ;; k" := (bind m (fun _ => k)) (at level 100, right associativity).

Definition lift {A} (o : outcome A) (payload : option cell) : M A :=
  match o with
  | Ok a => ret a
  | Err k => fail k payload
  | Panic => panic
  end.

(* typed accessors with the payload the Rust code reports *)
Definition m_xint (c : cell) : M Z :=
  match value c with CInt z => ret z | v => fail EType (Some v) end.
Definition m_real (c : cell) : M Z :=
  match value c with CReal z => ret z | v => fail EType (Some v) end.
Definition m_bool (c : cell) : M bool :=
  match value c with CFlag b => ret b | _ => fail EType (Some c) end.
Definition m_cond (c : cell) : M bool :=
  match value c with CNil => ret false | CFlag b => ret b | _ => fail EType (Some c) end.
Definition m_vec (c : cell) : M (list cell) :=
  match value c with CVec l => ret l | v => fail EType (Some v) end.
Definition m_map (c : cell) : M (list (cell * cell)) :=
  match value c with CMap m => ret m | v => fail EType (Some v) end.
Definition m_str (c : cell) : M string :=
  match value c with CStr x => ret x | v => fail EType (Some v) end.
Definition m_bits (c : cell) : M cbs :=
  match value c with CBits b => ret b | v => fail EType (Some v) end.
Definition m_usize (c : cell) : M Z :=
  match value c with
  | CInt z => if (z <? 0)%Z then fail EType (Some c)
              else if in_usize z then ret z else fail EOverflow None
  | v => fail EType (Some v)
  end.
Definition m_isize (c : cell) : M Z :=
  match value c with
  | CInt z => if in_isize z then ret z else fail EOverflow None
  | v => fail EType (Some v)
  end.

(* ---------- reverse log ---------- *)
Definition recording (s : state) : bool := match rlog s with Some _ => true | None => false end.
Definition add_rstep (r : rstep) (s : state) : state :=
  match rlog s with Some l => set_rlog s (Some (r :: l)) | None => s end.

(* ---------- primitives (each logs its inverse when recording) ---------- *)
Definition limit_reached (lim : option Z) (n : nat) : bool :=
  match lim with Some l => (l <=? Z.of_nat n)%Z | None => false end.

Definition push_data (c : cell) : M unit := fun s =>
  if limit_reached (stack_limit s) (length (ds s)) then RErr ELimit None s
  else ROk tt (set_ds (add_rstep RPopData s) (c :: ds s)).

Definition pop_data : M cell := fun s =>
  match ds s with
  | c :: r => if ds_len (cx s) <? length (ds s)
              then ROk c (add_rstep (RPushData c) (set_ds s r))
              else RErr EUnderflow None s
  | [] => RErr EUnderflow None s
  end.

Definition top_data : M cell := fun s =>
  match ds s with
  | c :: _ => if ds_len (cx s) <? length (ds s) then ROk c s else RErr EUnderflow None s
  | [] => RErr EUnderflow None s
  end.

Definition data_depth (s : state) : nat := length (ds s) - ds_len (cx s).

Definition dup_data : M unit :=
  let* c := top_data in push_data c.

Definition swap_data : M unit := fun s =>
  match ds s with
  | a :: b :: r => if 2 <=? data_depth s
                   then ROk tt (set_ds (add_rstep RSwapData s) (b :: a :: r))
                   else RErr EUnderflow None s
  | _ => RErr EUnderflow None s
  end.

Definition rot_data : M unit := fun s =>
  match ds s with
  | a :: b :: c :: r => if 3 <=? data_depth s
                        then ROk tt (set_ds (add_rstep RRotData s) (c :: b :: a :: r))
                        else RErr EUnderflow None s
  | _ => RErr EUnderflow None s
  end.

Definition over_data : M unit := fun s =>
  match ds s with
  | a :: b :: r => if 2 <=? data_depth s
                   then push_data b (add_rstep ROverData s)
                   else RErr EUnderflow None s
  | _ => RErr EUnderflow None s
  end.

Definition push_return (f : frame) : M unit := fun s =>
  ROk tt (set_rs (add_rstep RPopReturn s) (f :: rs s)).

Definition pop_return : M frame := fun s =>
  match rs s with
  | f :: r => if rs_len (cx s) <? length (rs s)
              then ROk f (add_rstep (RPushReturn f) (set_rs s r))
              else RErr ERetUnderflow None s
  | [] => RErr ERetUnderflow None s
  end.

Definition top_frame : M frame := fun s =>
  match rs s with
  | f :: _ => if rs_len (cx s) <? length (rs s) then ROk f s else RErr ERetUnderflow None s
  | [] => RErr ERetUnderflow None s
  end.

Definition push_loop (l : loopr) : M unit := fun s =>
  ROk tt (set_loops (add_rstep RPopLoop s) (l :: loops s)).

Definition pop_loop : M loopr := fun s =>
  match loops s with
  | l :: r => if ls_len (cx s) <? length (loops s)
              then ROk l (add_rstep (RPushLoop l) (set_loops s r))
              else RErr ELoopUnderflow None s
  | [] => RErr ELoopUnderflow None s
  end.

(* Range<isize>::next then !is_empty *)
Definition loop_next : M bool := fun s =>
  match loops s with
  | l :: r =>
    if ls_len (cx s) <? length (loops s) then
      let st' := if (l_start l <? l_end l)%Z then (l_start l + 1)%Z else l_start l in
      let l' := mkloop (l_items l) st' (l_end l) in
      ROk (st' <? l_end l)%Z (add_rstep (RLoopNextBack l) (set_loops s (l' :: r)))
    else RErr ELoopUnderflow None s
  | [] => RErr ELoopUnderflow None s
  end.

(* D4 repair: storing the collection of a foreach loop is logged like loop_next *)
Definition loop_set_items (c : cell) : M unit := fun s =>
  match loops s with
  | l :: r =>
    if ls_len (cx s) <? length (loops s) then
      ROk tt (add_rstep (RLoopNextBack l) (set_loops s (mkloop c (l_start l) (l_end l) :: r)))
    else RErr ELoopUnderflow None s
  | [] => RErr ELoopUnderflow None s
  end.

Definition push_special (p : nat) : M unit := fun s =>
  ROk tt (set_special (add_rstep RPopSpecial s) (p :: special s)).

Definition pop_special : M (option nat) := fun s =>
  match special s with
  | p :: r => if ss_ptr (cx s) <? length (special s)
              then ROk (Some p) (add_rstep (RPushSpecial p) (set_special s r))
              else ROk None s
  | [] => ROk None s
  end.

Fixpoint list_set {A} (l : list A) (i : nat) (v : A) : list A :=
  match l, i with
  | [], _ => []
  | _ :: r, O => v :: r
  | x :: r, S j => x :: list_set r j v
  end.

(* cell_ref / get_var *)
Definition get_var (a : nat) : M cell := fun s =>
  if mode_eqb (cmode (cx s)) MMeta then RErr EConst None s
  else match nth_error (heap s) a with
       | Some c => ROk c s
       | None => RErr EHeapOob None s
       end.

(* swap_cell_ref / set_var *)
Definition set_var (a : nat) (v : cell) : M unit := fun s =>
  if mode_eqb (cmode (cx s)) MMeta then RErr EConst None s
  else match nth_error (heap s) a with
       | Some old => ROk tt (add_rstep (RSwapRef a old) (set_heap s (list_set (heap s) a v)))
       | None => RErr EHeapOob None s
       end.

Definition alloc_heap (v : cell) : M nat := fun s =>
  if mode_eqb (cmode (cx s)) MMeta then RErr EConst None s
  else if limit_reached (heap_limit s) (length (heap s)) then RErr ELimit None s
  else ROk (length (heap s)) (set_heap s (heap s ++ [v])).

Definition set_ip (new_ip : nat) : M unit := fun s =>
  ROk tt (set_ip_raw (add_rstep (RSetIp (ip s)) s) new_ip).
Definition next_ip : M unit := fun s =>
  ROk tt (set_ip_raw (add_rstep (RSetIp (ip s)) s) (S (ip s))).

(* InitLocal after the D2/D3 repair: the slot index is honoured (missing slots are
   padded with nil) and the previous locals vector is what the log restores *)
Fixpoint pad_set (l : list cell) (i : nat) (v : cell) : list cell :=
  match i, l with
  | O, [] => [v]
  | O, _ :: r => v :: r
  | S j, [] => CNil :: pad_set [] j v
  | S j, x :: r => x :: pad_set r j v
  end.

Definition init_local (i : nat) (v : cell) : M unit := fun s =>
  match rs s with
  | f :: r =>
    if rs_len (cx s) <? length (rs s) then
      ROk tt (add_rstep (RSetLocals (locals f))
                        (set_rs s (mkframe (fn_addr f) (return_to f) (pad_set (locals f) i v) :: r)))
    else RErr ERetUnderflow None s
  | [] => RErr ERetUnderflow None s
  end.

(* print to the intercepted stdout *)
Definition print (msg : string) : M unit := fun s => ROk tt (set_out s (out s ++ msg)).

(* ---------- reverse_changes and rnext ---------- *)
Definition reverse_changes (r : rstep) : M unit := fun s =>
  match r with
  | RSetIp i => ROk tt (set_ip_raw s i)
  | RPopData =>
    match ds s with
    | _ :: t => if ds_len (cx s) <? length (ds s) then ROk tt (set_ds s t) else RErr EUnderflow None s
    | [] => RErr EUnderflow None s
    end
  | RPushData c => ROk tt (set_ds s (c :: ds s))
  | RSwapData =>
    match ds s with
    | a :: b :: t => if 2 <=? data_depth s then ROk tt (set_ds s (b :: a :: t)) else RErr EUnderflow None s
    | _ => RErr EUnderflow None s
    end
  | RRotData =>
    match ds s with
    | a :: b :: c :: t => if 3 <=? data_depth s then ROk tt (set_ds s (c :: b :: a :: t)) else RErr EUnderflow None s
    | _ => RErr EUnderflow None s
    end
  | ROverData =>
    (* drop_data: the LOGGING pop; the entry it adds is consumed by the caller's loop *)
    match pop_data s with
    | ROk _ s' => ROk tt s'
    | RErr k p s' => RErr k p s'
    | RPanic => RPanic
    | RUnsup => RUnsup
    end
  | RPopReturn =>
    match rs s with
    | _ :: t => if rs_len (cx s) <? length (rs s) then ROk tt (set_rs s t) else RErr ERetUnderflow None s
    | [] => RErr ERetUnderflow None s
    end
  | RPushReturn f => ROk tt (set_rs s (f :: rs s))
  | RPushLoop l => ROk tt (set_loops s (l :: loops s))
  | RPopLoop =>
    match loops s with
    | _ :: t => if ls_len (cx s) <? length (loops s) then ROk tt (set_loops s t) else RErr ELoopUnderflow None s
    | [] => RErr ELoopUnderflow None s
    end
  | RLoopNextBack l =>
    match loops s with
    | _ :: t => if ls_len (cx s) <? length (loops s) then ROk tt (set_loops s (l :: t)) else RErr ELoopUnderflow None s
    | [] => RErr ELoopUnderflow None s
    end
  | RPushSpecial p => ROk tt (set_special s (p :: special s))
  | RPopSpecial =>
    match special s with
    | _ :: t => if ss_ptr (cx s) <? length (special s) then ROk tt (set_special s t) else RErr EFlow None s
    | [] => RErr EFlow None s
    end
  | RSetLocals l =>
    match rs s with
    | f :: t => if rs_len (cx s) <? length (rs s)
                then ROk tt (set_rs s (mkframe (fn_addr f) (return_to f) l :: t))
                else RErr ERetUnderflow None s
    | [] => RErr ERetUnderflow None s
    end
  | RSwapRef a v =>
    match nth_error (heap s) a with
    | Some _ => ROk tt (set_heap s (list_set (heap s) a v))
    | None => RErr EHeapOob None s
    end
  end.

Definition log_pop (s : state) : option (rstep * state) :=
  match rlog s with
  | Some (r :: l) => Some (r, set_rlog s (Some l))
  | _ => None
  end.

(* undo entries until the next SetIp (which is put back) *)
Fixpoint rnext_loop (fuel : nat) : M unit := fun s =>
  match fuel with
  | O => ROk tt s
  | S f =>
    match log_pop s with
    | None => ROk tt s
    | Some (RSetIp i, s') => ROk tt (add_rstep (RSetIp i) s')
    | Some (r, s') =>
      match reverse_changes r s' with
      | ROk _ s'' => rnext_loop f s''
      | e => e
      end
    end
  end.

Definition log_len (s : state) : nat := match rlog s with Some l => length l | None => 0 end.

Definition rnext : M unit := fun s =>
  match log_pop s with
  | Some (r, s') =>
    match reverse_changes r s' with
    | ROk _ s'' => rnext_loop (S (log_len s'')) s''
    | e => e
    end
  | None => rnext_loop (S (log_len s)) s
  end.

(* ---------- dictionary ---------- *)
Fixpoint dict_rfind (d : list dentry) (name : string) (acc : option entry) : option entry :=
  match d with
  | [] => acc
  | e :: r => dict_rfind r name (if String.eqb (dname e) name then Some (dent e) else acc)
  end.
Definition dict_entry (s : state) (name : string) : option entry := dict_rfind (dict s) name None.

Definition in_i64 (z : Z) : bool := ((- two63 <=? z) && (z <? two63))%Z.

Definition load_value_opcode (c : cell) : opcode :=
  match c with
  | CInt z => if in_i64 z then OLoadI64 z else OLoadCell c
  | CStr x => OLoadStr x
  | CNil => OLoadNil
  | _ => OLoadCell c
  end.

(* RelativeJump::calculate *)
(* a compiled jump never leaves the code vector by more than one cell; a negative
   target (unreachable for compiled code) is clamped to 0 instead of wrapping *)
Definition jump_target (ip : nat) (rel : Z) : nat := Z.to_nat (Z.of_nat ip + rel)%Z.

(* ---------- instruction step ---------- *)
Definition meter_increase : M unit := fun s =>
  match insn_limit s with
  | Some l => if (l <=? meter s)%Z then RErr ELimit None s else ROk tt (set_meter s (meter s + 1)%Z)
  | None => ROk tt (set_meter s (meter s + 1)%Z)
  end.

Definition do_init : M loopr :=
  let* st := pop_data in
  let* lim := pop_data in
  let* st' := m_isize st in
  let* lim' := m_isize lim in
  ret (mkloop CNil st' lim').

(* [nf] is the table of native words, supplied by Words.v *)
Definition natives : Type := string -> option (M unit).

  Definition exec_op (native_fn : natives) (ip0 : nat) (op : opcode) : M unit :=
    match op with
    | ONop => next_ip
    | OJump rel => set_ip (jump_target ip0 rel)
    | OJumpIf rel =>
      let* c := pop_data in
      let* b := m_cond c in
      if b then set_ip (jump_target ip0 rel) else next_ip
    | OJumpIfNot rel =>
      let* c := pop_data in
      let* b := m_cond c in
      if negb b then set_ip (jump_target ip0 rel) else next_ip
    | OCaseOf rel =>
      let* a := pop_data in
      let* b := top_data in
      if cell_eqb a b then (let* _ := pop_data in next_ip) else set_ip (jump_target ip0 rel)
    | OCall a =>
      push_return (mkframe a (S ip0) []) ;; set_ip a
    | ONative w =>
      match native_fn w with
      | Some f => f ;; next_ip
      | None => unsup
      end
    | ORet =>
      let* f := pop_return in set_ip (return_to f)
    | OResolve _ => unsup   (* handled by [step] *)
    | OLoadStr x => push_data (CStr x) ;; next_ip
    | OLoadF64 r => push_data (CReal r) ;; next_ip
    | OLoadI64 z => push_data (CInt z) ;; next_ip
    | OLoadNil => push_data CNil ;; next_ip
    | OLoadCell c => push_data c ;; next_ip
    | OLoad a => let* v := get_var a in push_data v ;; next_ip
    | OStore a => let* v := pop_data in set_var a v ;; next_ip
    | OInitLocal i => let* v := pop_data in init_local i v ;; next_ip
    | OLoadLocal i =>
      let* f := top_frame in
      match nth_error (locals f) i with
      | Some v => push_data v ;; next_ip
      | None => fail ELocalOob None
      end
    | ODo rel =>
      let* l := do_init in
      if (l_end l <=? l_start l)%Z then set_ip (jump_target ip0 rel)
      else push_loop l ;; next_ip
    | OBreak rel => let* _ := pop_loop in set_ip (jump_target ip0 rel)
    | OLoop rel =>
      let* more := loop_next in
      if more then set_ip (jump_target ip0 rel)
      else (let* _ := pop_loop in next_ip)
    end.

  Definition resolve_op (e : entry) : opcode :=
    match e with
    | DConst c => load_value_opcode c
    | DVar a => OLoad a
    | DFun _ (FInterp x) _ => OCall x
    | DFun _ (FNative x) _ => ONative x
    end.

  (* fetch_and_run.  code[ip] panics when ip is out of range (callers check is_running). *)
  Definition fetch_and_run (native_fn : natives) : M unit := fun s =>
    let ip0 := ip s in
    match meter_increase s with
    | ROk _ s1 =>
      match nth_error (code s1) ip0 with
      | None => RPanic
      | Some (OResolve name) =>
        match dict_entry s1 name with
        | None => RErr EUnknown None s1
        | Some e =>
          let op := resolve_op e in
          let s2 := set_code s1 (list_set (code s1) ip0 op) in
          (* the patched instruction is fetched again (and metered again) *)
          match meter_increase s2 with
          | ROk _ s3 => exec_op native_fn ip0 op s3
          | e' => e'
          end
        end
      | Some op => exec_op native_fn ip0 op s1
      end
    | e => e
    end.

  Definition is_running (s : state) : bool := ip s <? length (code s).

  (* State::next *)
  Definition next (native_fn : natives) : M unit := fun s =>
    if is_running s then fetch_and_run native_fn s else ROk tt s.

  (* State::run with fuel; None = out of fuel *)
  Fixpoint run (native_fn : natives) (fuel : nat) (s : state) : option (res unit) :=
    match fuel with
    | O => None
    | S f =>
      if is_running s then
        match fetch_and_run native_fn s with
        | ROk _ s' => run native_fn f s'
        | e => Some e
        end
      else Some (ROk tt s)
    end.

(* ---------- iteration helpers used by the property statements ---------- *)
Fixpoint steps (nf : natives) (n : nat) (s : state) : option state :=
  match n with
  | O => Some s
  | S m => match fetch_and_run nf s with
           | ROk _ s' => steps nf m s'
           | _ => None
           end
  end.

Fixpoint rnexts (k : nat) (s : state) : option state :=
  match k with
  | O => Some s
  | S j => match rnext s with
           | ROk _ s' => rnexts j s'
           | _ => None
           end
  end.

(* the instruction meter and the captured stdout are not part of the reversible state *)
Definition erase_mo (s : state) : state := set_out (set_meter s 0%Z) EmptyString.
Definition eq_rev (a b : state) : Prop := erase_mo a = erase_mo b.

(* the reverse log ends at an instruction boundary *)
Definition log_ok (s : state) : Prop :=
  match rlog s with
  | Some [] => True
  | Some (RSetIp _ :: _) => True
  | _ => False
  end.

(* every stack is at least as long as the mark of the current context *)
Definition wf_marks (s : state) : Prop :=
  ds_len (cx s) <= length (ds s) /\ rs_len (cx s) <= length (rs s) /\
  ls_len (cx s) <= length (loops s) /\ ss_ptr (cx s) <= length (special s).

Definition not_resolve (s : state) : Prop :=
  forall name, nth_error (code s) (ip s) <> Some (OResolve name).

Definition erase_log (s : state) : state := set_rlog s None.

Definition res_map {A} (f : state -> state) (r : res A) : res A :=
  match r with
  | ROk a s => ROk a (f s)
  | RErr k p s => RErr k p (f s)
  | RPanic => RPanic
  | RUnsup => RUnsup
  end.

Definition res_state {A} (r : res A) : option state :=
  match r with
  | ROk _ s => Some s
  | RErr _ _ s => Some s
  | _ => None
  end.
