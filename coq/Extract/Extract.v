(* Extraction of the executable model for the correspondence check.
   ExtrOcamlBasic only: bool, option, unit, list, prod, sumbool, sumor (and andb, orb) map
   to OCaml natives; nat, N, Z, positive stay extracted inductives. *)
Require Import Extraction ExtrOcamlBasic.
From Xeh Require Import Model.Prelude Model.Bits Model.Codec Model.Store Model.Cell Model.Lexer Model.Fmt Model.Vm Model.Words Model.Build Model.Struct Model.Boot Model.F64c Model.F64.
Extraction Language OCaml.
Separate Extraction
  Bits.wfb Bits.abs Bits.bits Bits.iter8 Bits.seek Bits.read Bits.peek Bits.substr Bits.split_at
  Bits.slice Bits.to_bytes Bits.bytestr Bits.to_bytes_with_padding Bits.detach Bits.append
  Bits.insert Bits.invert Bits.eq_with Bits.to_hex_digits Bits.from_bits Bits.from_hex
  Bits.from_bytes Bits.of_bools
  Codec.to_uint Codec.to_int Codec.from_int Codec.to_fbits Codec.from_fbits
  Codec.spec_uint Codec.spec_int Codec.be_layout Codec.le_layout Codec.sext
  Prelude.wrap128 Prelude.chunk8 Prelude.bits_to_N
  Cell.cell_eqb Cell.cell_cmp Cell.strip Cell.assoc_insert Cell.assoc_remove Cell.assoc_find
  Cell.insert_tag Cell.remove_tag Cell.get_tag Cell.with_tags
  Lexer.lex_string Lexer.token_location Lexer.lex_next_nonws Lexer.lex_new
  Fmt.format_cell Fmt.fmt_cell
  Vm.run Vm.next Vm.rnext Vm.push_data Vm.pop_data Vm.set_rlog Vm.set_limits Vm.set_meter Vm.set_var Vm.get_var
  Vm.set_out Vm.data_depth Vm.is_running Vm.dict_entry
  Words.native_fn Words.w_open_bitstr Words.R_OUTPUT
  Build.eval Build.compile Struct.seval_source Struct.parse_source Struct.layout_program
  Store.pool_step Store.pool_view
  Boot.boot Boot.fops_with F64.flocq_fops F64c.f64_of_int F64c.f64_to_int F64c.f64_round F64c.f32_to_f64 F64c.f64_to_f32.
