(* Extraction of the executable model for the correspondence check.
   ExtrOcamlBasic only: bool, option, unit, list, prod, sumbool, comparison map
   to OCaml natives; nat, N, Z, positive stay extracted inductives. *)
Require Import Extraction ExtrOcamlBasic.
From Xeh Require Import Model.Prelude Model.Bits Model.Codec.
Extraction Language OCaml.
Extraction "model.ml"
  Bits.wfb Bits.abs Bits.bits Bits.iter8 Bits.seek Bits.read Bits.peek Bits.substr Bits.split_at
  Bits.slice Bits.to_bytes Bits.bytestr Bits.to_bytes_with_padding Bits.detach Bits.append
  Bits.insert Bits.invert Bits.eq_with Bits.to_hex_digits Bits.from_bits Bits.from_hex
  Bits.from_bytes Bits.of_bools
  Codec.to_uint Codec.to_int Codec.from_int Codec.to_fbits Codec.from_fbits
  Codec.spec_uint Codec.spec_int Codec.be_layout Codec.le_layout Codec.sext
  Prelude.wrap128 Prelude.chunk8 Prelude.bits_to_N.
