#!/bin/sh
# Build the framework from files on disk only (offline).
set -e
cd "$(dirname "$0")"
export CARGO_NET_OFFLINE=true
(cd coq && coq_makefile -f _CoqProject -o Makefile && timeout 3400 make -j16 >/dev/null 2>&1 || (make 2>&1 | tail -30; exit 1))
./ocaml/build.sh
[ -f harness/Cargo.lock ] || cp /repo/Cargo.lock harness/Cargo.lock
(cd harness && timeout 1700 cargo build --offline 2>&1 | tail -3)
echo setup-done
