(* Interpreter sessions on the model: same step language as harness/src/xs.rs. *)
type str = string
module SL = Stdlib.List
open Datatypes
open BinNums
open Prelude
open Bits
open Codec
open Cell
open Lexer
open Vm
open Conv

(* ---- reals: the host's IEEE doubles instantiate the five binary operations ---- *)
let f_of_z (p : coq_Z) : float = Int64.float_of_bits (Int64.of_string ("0x" ^ hex_of_z p))
let z_of_f (f : float) : coq_Z = z_of_hex (Printf.sprintf "%Lx" (Int64.bits_of_float f))
let lift2 (op : float -> float -> float) (a : coq_Z) (b : coq_Z) : coq_Z = z_of_f (op (f_of_z a) (f_of_z b))
let rust_min a b = if Float.is_nan a then b else if Float.is_nan b then a else if a < b then a else b
let rust_max a b = if Float.is_nan a then b else if Float.is_nan b then a else if a > b then a else b
let host_fops : Words.fops =
  Boot.fops_with (lift2 ( +. )) (lift2 ( -. )) (lift2 ( *. )) (lift2 ( /. )) (lift2 Float.rem)
    (lift2 rust_min) (lift2 rust_max)

(* str::parse::<f64> on a cleaned literal: the grammar check is Rust's, the value is
   the correctly rounded strtod of the C library *)
let rust_float_ok (s : str) : bool =
  let n = Stdlib.String.length s in
  let i = ref 0 in
  let digits () = let st = !i in while !i < n && s.[!i] >= '0' && s.[!i] <= '9' do incr i done; !i - st in
  if !i < n && (s.[!i] = '+' || s.[!i] = '-') then incr i;
  let rest = Stdlib.String.lowercase_ascii (Stdlib.String.sub s !i (n - !i)) in
  if rest = "inf" || rest = "infinity" || rest = "nan" then true else begin
    let a = digits () in
    let b = if !i < n && s.[!i] = '.' then (incr i; digits ()) else 0 in
    if a + b = 0 then false else begin
      if !i < n && (s.[!i] = 'e' || s.[!i] = 'E') then begin
        incr i;
        if !i < n && (s.[!i] = '+' || s.[!i] = '-') then incr i;
        if digits () = 0 then i := n + 1
      end;
      !i = n
    end
  end
let parse_real (t : CoqString.string) : coq_Z option =
  let s = string_of_coq t in
  if rust_float_ok s then (try Some (z_of_f (float_of_string s)) with _ -> None) else None

(* ---- fuel ---- *)
let run_fuel = nat_of_int 200000
let build_fuel = nat_of_int 20000
let cur_fops = ref host_fops
let nf s = Words.native_fn !cur_fops s

(* ---- printing ---- *)
let kind_str (k : ekind) : str =
  match k with
  | EUnderflow -> "Underflow" | EType -> "Type" | EDivZero -> "DivZero" | EOverflow -> "Overflow"
  | EBounds -> "Bounds" | ERead -> "Read" | ESeek -> "Seek" | EMatch -> "Match" | EFlow -> "Flow"
  | EUnknown -> "Unknown" | EParse -> "Parse" | EAssert -> "Assert" | EUser -> "User" | ELimit -> "Limit"
  | EConst -> "Const" | EIo -> "Io" | EExit -> "Exit" | ERetUnderflow -> "RetUnderflow"
  | ELoopUnderflow -> "LoopUnderflow" | EToBytestr -> "ToBytestr" | ESlice -> "Slice"
  | EExpectName -> "ExpectName" | EExpectLit -> "ExpectLit" | EInternal -> "Internal" | EContext -> "Context"
  | EReadonly -> "Readonly" | EHeapOob -> "HeapOob" | ELocalOob -> "LocalOob" | EFloatLen -> "FloatLen"
  | ELetSyntax -> "LetSyntax" | EMsg -> "Msg" | EOther -> "Other"

let soi = string_of_int
let ion = int_of_nat
let mode_ch = function MCompile -> "C" | MEval -> "E" | MMeta -> "M"
let ctx_str (c : ctx) : str =
  Printf.sprintf "%s:ds%d:cs%d:rs%d:fs%d:ls%d:ss%d:di%d:ip%d" (mode_ch c.cmode) (ion c.ds_len) (ion c.cs_len)
    (ion c.rs_len) (ion c.fs_len) (ion c.ls_len) (ion c.ss_ptr) (ion c.di_len) (ion c.cip)
let dec_of_z (z : coq_Z) : str = Z.to_string (Z.of_string_base 16 (hex_of_z z))
let cat = Stdlib.String.concat
let loop_str (l : loopr) = Printf.sprintf "(%s,%s,%s)" (cell_str l.l_items) (dec_of_z l.l_start) (dec_of_z l.l_end)
let frame_str (f : frame) = Printf.sprintf "(%d,%d,[%s])" (ion f.fn_addr) (ion f.return_to) (cat "," (SL.map cell_str f.locals))
let flow_str (f : flow) : str =
  match f with
  | FIf o -> Printf.sprintf "If(%d)" (ion o) | FElse o -> Printf.sprintf "Else(%d)" (ion o)
  | FBegin o -> Printf.sprintf "Begin(%d)" (ion o) | FWhile o -> Printf.sprintf "While(%d)" (ion o)
  | FBreak o -> Printf.sprintf "Break(%d)" (ion o) | FCase -> "Case" | FCaseOf o -> Printf.sprintf "CaseOf(%d)" (ion o)
  | FCaseEndOf o -> Printf.sprintf "CaseEndOf(%d)" (ion o) | FVec -> "Vec" | FMap -> "Map" | FTags -> "Tags"
  | FFun (d, st, ls) -> Printf.sprintf "Fun(%d,%d,[%s])" (ion d) (ion st) (cat "," (SL.map string_of_coq ls))
  | FDo (a, b) -> Printf.sprintf "Do(%d,%d)" (ion a) (ion b)
  | FEnum (n, fs) -> Printf.sprintf "Enum(%s,%d)" (string_of_coq n) (SL.length fs)
let rstep_str (r : rstep) : str =
  match r with
  | RSetIp i -> Printf.sprintf "SetIp(%d)" (ion i) | RPushData c -> "PushData(" ^ cell_str c ^ ")"
  | RPopData -> "PopData" | RSwapData -> "SwapData" | RRotData -> "RotData" | ROverData -> "OverData"
  | RPopReturn -> "PopReturn" | RPushReturn f -> "PushReturn" ^ frame_str f | RPopLoop -> "PopLoop"
  | RPushLoop l -> "PushLoop" ^ loop_str l | RLoopNextBack l -> "LoopNextBack" ^ loop_str l
  | RPopSpecial -> "PopSpecial" | RPushSpecial p -> Printf.sprintf "PushSpecial(%d)" (ion p)
  | RSetLocals l -> "RestoreLocals([" ^ cat "," (SL.map cell_str l) ^ "])"
  | RSwapRef (a, c) -> Printf.sprintf "SwapRef(%d,%s)" (ion a) (cell_str c)
let lim_str = function None -> "-" | Some z -> dec_of_z z
let sp l = cat "" (SL.map (fun x -> " " ^ x) l)

let dump (with_log : bool) (s : state) : str =
  Printf.sprintf "ip %d ; ctx %s ; nested%s ; ds%s ; rs%s ; loops%s ; special%s ; heap%s ; flow%s ; input %d ; dict %d ; code %d ; dbg %d ; meter %s ; limits %s %s %s ; log %s"
    (ion s.cx.cip) (ctx_str s.cx)
    (sp (SL.rev_map ctx_str s.nested))
    (sp (SL.rev_map cell_str s.ds))
    (sp (SL.rev_map frame_str s.rs))
    (sp (SL.rev_map loop_str s.loops))
    (sp (SL.rev_map (fun p -> soi (ion p)) s.special))
    (sp (SL.map cell_str s.heap))
    (sp (SL.rev_map flow_str s.flows))
    (SL.length s.input) (SL.length s.dict) (SL.length s.code) (SL.length s.dbg)
    (dec_of_z s.meter) (lim_str s.insn_limit) (lim_str s.stack_limit) (lim_str s.heap_limit)
    (match s.rlog with
     | None -> "off"
     | Some l -> soi (SL.length l) ^ (if with_log then sp (SL.rev_map rstep_str l) else ""))

let op_str (op : opcode) : str =
  let z = dec_of_z in
  match op with
  | ONop -> "nop" | OCall a -> "call " ^ soi (ion a) | OResolve n -> "resolve " ^ hexbytes_of_string (string_of_coq n)
  | ONative w -> "ncall " ^ string_of_coq w | ORet -> "ret" | OJumpIf r -> "jif " ^ z r | OJumpIfNot r -> "jifn " ^ z r
  | OJump r -> "jmp " ^ z r | ODo r -> "do " ^ z r | OBreak r -> "brk " ^ z r | OLoop r -> "loop " ^ z r
  | OCaseOf r -> "caseof " ^ z r | OLoad a -> "load " ^ soi (ion a) | OLoadNil -> "lnil"
  | OLoadI64 i -> "li64 " ^ hex_of_z i | OLoadF64 r -> "lf64 " ^ cell_str (CReal r)
  | OLoadStr t -> "lstr " ^ hexbytes_of_string (string_of_coq t) | OLoadCell c -> "lcell " ^ cell_str c
  | OStore a -> "store " ^ soi (ion a) | OInitLocal i -> "initl " ^ soi (ion i) | OLoadLocal i -> "loadl " ^ soi (ion i)

let rec drop k l = if k <= 0 then l else match l with [] -> [] | _ :: r -> drop (k - 1) r

let code_dump (s : state) (from : int) : str =
  let ops = drop from s.code and dbg = drop from s.dbg in
  let rec go ops dbg = match ops with
    | [] -> []
    | op :: r ->
      let (d, dr) = match dbg with [] -> ("", []) | ((src, a), b) :: dr -> (Printf.sprintf " @%d:%d:%d" (ion src) (ion a) (ion b), dr) in
      (op_str op ^ d) :: go r dr in
  "code:" ^ cat " ; " (go ops dbg)

let dict_dump (s : state) (from : int) : str =
  "dict:" ^ cat " ; " (SL.map (fun (e : dentry) ->
    hexbytes_of_string (string_of_coq e.dname) ^
    (match e.dent with
     | DConst c -> " const " ^ cell_str c
     | DVar a -> " var " ^ soi (ion a)
     | DFun (imm, f, len) ->
       (if imm then " imm " else " fun ") ^
       (* the two field words of an open enum have no name of their own in the implementation: its dump names a native
          function after the first dictionary entry that holds it, i.e. ":" and "=" *)
       (match f with FInterp a -> "i" ^ soi (ion a)
                   | FNative n -> "n" ^ (match string_of_coq n with "%enum-field" -> ":" | "%enum-field-set" -> "=" | x -> x)) ^
       (match len with Some n -> " " ^ soi (ion n) | None -> " -"))) (drop from s.dict))

type sess = { mutable states : state array; mutable cur : int; mutable locs : (int, str) Hashtbl.t }
exception Unsupported

let fnv (h : int64 ref) (s : str) =
  Stdlib.String.iter (fun c ->
    h := Int64.logxor !h (Int64.of_int (Char.code c));
    h := Int64.mul !h 0x100000001b3L) s

let dump_nometer (d : str) : str =
  let find sub =
    let n = Stdlib.String.length d and m = Stdlib.String.length sub in
    let rec go i = if i + m > n then -1 else if Stdlib.String.sub d i m = sub then i else go (i + 1) in go 0 in
  let a = find " ; meter " and b = find " ; limits " in
  if a >= 0 && b >= 0 then Stdlib.String.sub d 0 a ^ Stdlib.String.sub d b (Stdlib.String.length d - b) else d

let lcg_next (st : int64 ref) (n : int) : int =
  st := Int64.add (Int64.mul !st 6364136223846793005L) 1442695040888963407L;
  Int64.to_int (Int64.unsigned_rem (Int64.shift_right_logical !st 33) (Int64.of_int n))

let err_text k p = "E" ^ kind_str k ^ (match p with Some c -> "(" ^ cell_str c ^ ")" | None -> "")

let walk (ss : sess) (seed : int64) (maxfwd : int) (moves : int) : str =
  let get () = ss.states.(ss.cur) in
  let set s = ss.states.(ss.cur) <- s in
  let dmp () = dump_nometer (dump true (get ())) in
  let recd = ref [| dmp () |] in
  let h = ref 0xcbf29ce484222325L in
  let failed = ref "-" in
  let stop = ref false in
  while not !stop && Vm.is_running (get ()) && Array.length !recd <= maxfwd do
    (match Vm.next nf (get ()) with
     | ROk ((), s') -> set s'; let d = dmp () in fnv h d; recd := Array.append !recd [| d |]
     | RErr (k, p, s') -> set s'; failed := err_text k p; stop := true
     | RPanic -> failed := "PANIC"; stop := true
     | RUnsup -> raise Unsupported)
  done;
  let n = Array.length !recd - 1 in
  let pos = ref n in
  let result = ref None in
  if !failed <> "-" then begin
    let dfail = dmp () in
    (match Vm.rnext (get ()) with
     | ROk ((), s') -> set s'
     | RErr (k, p, s') -> set s'; result := Some ("walk:MISMATCH rnext-after-failure " ^ err_text k p)
     | RPanic -> result := Some "walk:PANIC" | RUnsup -> raise Unsupported);
    if !result = None then begin
      let d = dmp () in
      pos := (if dfail <> !recd.(n) then n else if n > 0 then n - 1 else 0);
      if d <> !recd.(!pos) then
        result := Some (Printf.sprintf "walk:MISMATCH after-failed-step n=%d partial=%b expected=%s got=%s" n (dfail <> !recd.(n)) !recd.(!pos) d);
      fnv h d
    end
  end;
  let g = ref seed in
  let k = ref 0 in
  while !result = None && !k < moves && n > 0 do
    let back = if !pos = 0 then false else if !pos = n then true else lcg_next g 3 <> 0 in
    let r = if back then Vm.rnext (get ()) else Vm.next nf (get ()) in
    (match r with
     | ROk ((), s') -> set s'; if back then decr pos else incr pos
     | RErr (kk, p, s') -> set s'; result := Some (Printf.sprintf "walk:MISMATCH move=%d %s %s" !k (if back then "rnext" else "next") (err_text kk p))
     | RPanic -> result := Some "walk:PANIC" | RUnsup -> raise Unsupported);
    if !result = None then begin
      let d = dmp () in
      if d <> !recd.(!pos) then
        result := Some (Printf.sprintf "walk:MISMATCH move=%d pos=%d back=%b expected=%s got=%s" !k !pos back !recd.(!pos) d);
      fnv h d
    end;
    incr k
  done;
  match !result with
  | Some r -> r
  | None -> Printf.sprintf "walk:ok n=%d failed=%s hash=%016Lx" n !failed !h

let stepcheck (ss : sess) (maxsteps : int) : str =
  let get () = ss.states.(ss.cur) in
  let steps = ref 0 and res = ref "ok" and stop = ref false in
  let maxds = ref (SL.length (get ()).ds) and maxheap = ref (SL.length (get ()).heap) in
  while not !stop && Vm.is_running (get ()) && !steps < maxsteps do
    let r = Vm.next nf (get ()) in
    incr steps;
    (match r with
     | ROk ((), s') -> ss.states.(ss.cur) <- s'
     | RErr (k, p, s') -> ss.states.(ss.cur) <- s'; res := err_text k p; stop := true
     | RPanic -> res := "PANIC"; stop := true
     | RUnsup -> raise Unsupported);
    maxds := max !maxds (SL.length (get ()).ds);
    maxheap := max !maxheap (SL.length (get ()).heap)
  done;
  Printf.sprintf "stepcheck:%s steps=%d maxds=%d maxheap=%d" !res !steps !maxds !maxheap

exception ModelPanic


let res_str (r : unit res) : str * state option =
  match r with
  | ROk ((), s) -> ("ok", Some s)
  | RErr (k, p, s) -> ("E" ^ kind_str k ^ (match p with Some c -> "(" ^ cell_str c ^ ")" | None -> ""), Some s)
  | RPanic -> ("PANIC", None)
  | RUnsup -> raise Unsupported

(* location of a token of the model: mirror of TokenLocation (file, line, col, line span, token span) *)
let loc_of_tok (s : state) (((src, a), b) : (nat * nat) * nat) : str =
  let rec nth l k = match l with [] -> None | x :: r -> if k = 0 then Some x else nth r (k - 1) in
  match nth s.sources (ion src) with
  | None -> "loc:none"
  | Some text ->
    if string_of_coq text = "" then "loc:none" else
    let (((line, col), ls), le) = Lexer.token_location text a in
    Printf.sprintf "loc:<buffer#%d>:%d:%d:%d-%d:%d-%d" (ion src) (ion line) (ion col) (ion ls) (ion le) (ion a) (ion b)

(* error location rule: a failure while the source's own code runs is located through the debug
   map; a failure while the source is being built through the last token read.  A run-time failure
   inside a meta block of a rejected source cannot be recovered from the unwound state: "loc:?" *)
let note_error (ss : sess) (before : state) (after : state) (has_meta : bool) : unit =
  let rec nth l k = match l with [] -> None | x :: r -> if k = 0 then Some x else nth r (k - 1) in
  let l =
    if SL.length after.code > SL.length before.code || (SL.length after.code = SL.length before.code && ion after.cx.cip < SL.length after.code && SL.length after.sources = SL.length before.sources) then
      (match nth after.dbg (ion after.cx.cip) with Some t -> loc_of_tok after t | None -> "loc:none")
    else if has_meta then "loc:?"
    else (match after.last_tok with Some t -> loc_of_tok after t | None -> "loc:none") in
  Hashtbl.replace ss.locs ss.cur l

let step (ss : sess) (t : str array) : str =
  let s = ss.states.(ss.cur) in
  let upd (txt, so) =
    (match so with
     | Some s' ->
       ss.states.(ss.cur) <- s';
       if txt <> "ok" then begin
         let has_meta = (t.(0) = "eval" || t.(0) = "compile") &&
                        (let src = string_of_hexbytes t.(1) in
                         (* `enum` opens meta contexts like `#(` *)
                         let rec find i = i + 1 < Stdlib.String.length src &&
                                          ((src.[i] = '#' && src.[i+1] = '(') ||
                                           (i + 3 < Stdlib.String.length src && Stdlib.String.sub src i 4 = "enum") || find (i + 1)) in find 0) in
         note_error ss s s' has_meta
       end else Hashtbl.remove ss.locs ss.cur
     | None -> ()); txt in
  let optz x = if x = "-" then None else Some (z_of_hex (Printf.sprintf "%x" (int_of_string x))) in
  match t.(0) with
  | "eval" -> upd (res_str (Build.eval !cur_fops parse_real run_fuel build_fuel (coq_of_string (string_of_hexbytes t.(1))) s))
  | "compile" -> upd (res_str (Build.compile !cur_fops parse_real run_fuel build_fuel (coq_of_string (string_of_hexbytes t.(1))) s))
  | "run" -> (match Vm.run nf run_fuel s with Some r -> upd (res_str r) | None -> raise Unsupported)
  | "next" -> upd (res_str (Vm.next nf s))
  | "rnext" -> upd (res_str (Vm.rnext s))
  | "stepall" ->
    let rec go (s : state) (guard : int) : unit res =
      if Vm.is_running s && guard > 0 then
        (match Vm.next nf s with
         | ROk ((), s') -> go s' (guard - 1)
         | e -> e)
      else ROk ((), s) in
    upd (res_str (go s 1000000))
  | "walk" -> walk ss (Int64.of_string t.(1)) (int_of_string t.(2)) (int_of_string t.(3))
  | "stepcheck" -> stepcheck ss (int_of_string t.(1))
  | "rec" ->
    ss.states.(ss.cur) <- (if t.(1) = "on" then (match s.rlog with None -> set_rlog s (Some []) | Some _ -> s) else set_rlog s None); "ok"
  | "limits" ->
    ss.states.(ss.cur) <- set_limits (set_meter s Z0) (optz t.(1)) (optz t.(3)) (optz t.(2)); "ok"
  | "stacklimit" ->
    ss.states.(ss.cur) <- set_limits s s.insn_limit s.heap_limit (optz t.(1)); "ok"
  | "heaplimit" ->
    ss.states.(ss.cur) <- set_limits s s.insn_limit (optz t.(1)) s.stack_limit; "ok"
  | "insnlimit" ->
    ss.states.(ss.cur) <- set_limits (set_meter s Z0) (optz t.(1)) s.heap_limit s.stack_limit; "ok"
  | "input" ->
    (* set_binary_input calls open_bitstr directly: no data-stack traffic, so the stack limit is lifted around it *)
    let b = cbs_of t.(1) t.(2) t.(3) in
    let s0 = set_limits s s.insn_limit s.heap_limit None in
    (match Vm.bind (push_data (CBits b)) (fun _ -> Words.w_open_bitstr) s0 with
     | ROk ((), s1) -> upd (res_str (ROk ((), set_limits s1 s.insn_limit s.heap_limit s.stack_limit)))
     | RErr (k, p, s1) -> upd (res_str (RErr (k, p, set_limits s1 s.insn_limit s.heap_limit s.stack_limit)))
     | r -> upd (res_str r))
  | "intercept" ->
    let on = t.(1) = "on" in
    let r = Vm.bind (get_var Words.coq_R_OUTPUT) (fun v ->
        if on then (if cell_eqb v CNil then set_var Words.coq_R_OUTPUT (CBits { cstart = O; cend = O; cdata = [] }) else Vm.ret ())
        else set_var Words.coq_R_OUTPUT CNil) s in
    upd (res_str r)
  | "push" -> upd (res_str (push_data (parse_cell t.(1)) s))
  | "pop" ->
    (match pop_data s with
     | ROk (c, s') -> ss.states.(ss.cur) <- s'; cell_str c
     | RErr (k, p, s') -> ss.states.(ss.cur) <- s'; "E" ^ kind_str k
     | RPanic -> "PANIC" | RUnsup -> raise Unsupported)
  | "clone" ->
    ss.states <- Array.append ss.states [| s |];
    "clone" ^ soi (Array.length ss.states - 1)
  | "use" -> ss.cur <- int_of_string t.(1); "ok"
  | "dump" -> dump false s
  | "dumplog" -> dump true s
  | "stack" ->
    let n = ion (data_depth s) in
    let rec take k l = if k <= 0 then [] else match l with [] -> [] | x :: r -> x :: take (k - 1) r in
    "[" ^ sp (SL.rev_map cell_str (take n s.ds)) ^ " ]"
  | "out" ->
    ss.states.(ss.cur) <- set_out s CoqString.EmptyString;
    "out:" ^ hexbytes_of_string (string_of_coq s.out)
  | "code" -> code_dump s (int_of_string t.(1))
  | "dict" -> dict_dump s (int_of_string t.(1))
  | "pretty" -> "pretty:-"
  | "printread" ->
    (match pop_data s with
     | ROk (c, s1) ->
       ss.states.(ss.cur) <- s1;
       (match Fmt.format_cell c with
        | None -> raise Unsupported
        | Some text ->
          let t = string_of_coq text in
          (match Build.eval !cur_fops parse_real run_fuel build_fuel text s1 with
           | ROk ((), s2) ->
             (match pop_data s2 with
              | ROk (v, _) -> if cell_eqb v c then "printread:ok"
                else Printf.sprintf "printread:DIFFERENT text=%s got=%s" (hexbytes_of_string t) (cell_str v)
              | _ -> "printread:NOTHING text=" ^ hexbytes_of_string t)
           | RErr (k, p, _) -> Printf.sprintf "printread:UNREADABLE text=%s %s" (hexbytes_of_string t) (err_text k p)
           | RPanic -> "PANIC" | RUnsup -> raise Unsupported))
     | RErr (k, p, s1) -> ss.states.(ss.cur) <- s1; err_text k p
     | RPanic -> "PANIC" | RUnsup -> raise Unsupported)
  | "errloc" -> (try Hashtbl.find ss.locs ss.cur with Not_found -> "loc:none")
  | "cursor" ->
    let rec nth l k = match l with [] -> None | x :: r -> if k = 0 then Some x else nth r (k - 1) in
    (match nth s.heap 1, nth s.heap 2 with
     | Some i, Some o ->
       (match Cell.value i with
        | CBits b -> Printf.sprintf "cur:%d:%d:%s:%s" (ion b.cstart) (ion b.cend) (cell_str o) (bits_of_cbs b)
        | other -> Printf.sprintf "cur:?:?:%s:%s" (cell_str o) (cell_str other))
     | _ -> "cur:unavailable")
  | "var" ->
    let name = coq_of_string (string_of_hexbytes t.(1)) in
    (match Vm.dict_entry s name with
     | None -> "EUnknown"
     | Some (DVar a) ->
       let rec nth l k = match l with [] -> None | x :: r -> if k = 0 then Some x else nth r (k - 1) in
       (match nth s.heap (ion a) with Some c -> cell_str c | None -> "EHeapOob")
     | Some (DConst c) -> cell_str c
     | Some _ -> "EInternal")
  | other -> "UNKNOWN-STEP " ^ other

let split_steps (t : str array) : str array list =
  let l = Array.to_list t in
  let rec go cur acc = function
    | [] -> SL.rev (if cur = [] then acc else (Array.of_list (SL.rev cur)) :: acc)
    | "|" :: r -> go [] (if cur = [] then acc else (Array.of_list (SL.rev cur)) :: acc) r
    | x :: r -> go (x :: cur) acc r in
  go [] [] l

(* the whole case is outside the model as soon as one step is *)
let run ?(flocq = false) (t : str array) : str * str =
  cur_fops := (if flocq then F64.flocq_fops else host_fops);
  let ss = { states = [| Boot.boot |]; cur = 0; locs = Hashtbl.create 7 } in
  try
    let outs = SL.map (fun st -> step ss st) (split_steps t) in
    (cat " | " outs, "-")
  with Unsupported -> ("UNSUP", "-")

(* ---- C01 stream ---- *)
let c1_line (res : str) (s : state) (at : str) : str =
  let rec drop k l = if k <= 0 then l else match l with [] -> [] | _ :: r -> drop (k - 1) r in
  Printf.sprintf "R=%s DS=[%s] HEAP=[%s] LOOPS=[%s] RS=%d OUT=%s AT=%s" res
    (cat " " (SL.rev_map cell_str s.ds)) (cat " " (SL.map cell_str (drop 6 s.heap)))
    (cat " " (SL.rev_map loop_str s.loops)) (SL.length s.rs)
    (hexbytes_of_string (string_of_coq s.out)) at

exception Budget
let with_budget (secs : int) (f : unit -> 'a) : 'a option =
  let old = Sys.signal Sys.sigalrm (Sys.Signal_handle (fun _ -> raise Budget)) in
  let fin () = ignore (Unix.alarm 0); Sys.set_signal Sys.sigalrm old in
  ignore (Unix.alarm secs);
  match f () with
  | v -> fin (); Some v
  | exception Budget -> fin (); None

let run_c1 (t : str array) : str * str =
  cur_fops := host_fops;
  let lim = z_of_hex (Printf.sprintf "%x" (int_of_string t.(0))) in
  let s0 = set_limits (set_meter Boot.boot Z0) (Some lim) None None in
  let src = coq_of_string (string_of_hexbytes t.(1)) in
  let only = try Sys.getenv "XEH_C1_ONLY" with Not_found -> "" in
  let mirror =
    if only = "spec" then "UNSUP" else
    match Build.eval !cur_fops parse_real run_fuel build_fuel src s0 with
    | ROk ((), s) -> c1_line "ok" s "-"
    | RErr (k, p, s) ->
      let at = if SL.length s.code > 0 then
          (let rec nth l k = match l with [] -> None | x :: r -> if k = 0 then Some x else nth r (k - 1) in
           match nth s.dbg (ion s.cx.cip) with
           | Some ((_, a), b) -> Printf.sprintf "%d-%d" (ion a) (ion b)
           | None -> "-")
        else "-" in
      c1_line (err_text k p) s at
    | RPanic -> "PANIC"
    | RUnsup -> "UNSUP" in
  let spec =
    if only = "mirror" then "-" else
    (* the structural evaluator has no instruction meter: it gets fuel in proportion to the limit and a time budget; when either
       runs out the case is not compared with the specification *)
    match with_budget 4 (fun () ->
        Struct.seval_source !cur_fops parse_real (nat_of_int (min 60000 (3 * int_of_string t.(0) + 400))) src s0) with
    | None -> "-"
    | Some r -> match r with
    | Struct.CBuildErr k -> c1_line ("E" ^ kind_str k) s0 "-"
    | Struct.CUnsupported -> "-"
    | Struct.CRun r ->
      (match r with
       | Struct.SDone s -> c1_line "ok" s "-"
       | Struct.SBroke _ -> "-"
       | Struct.SFail (k, p, (a, b), s) -> c1_line (err_text k p) s (Printf.sprintf "%d-%d" (ion a) (ion b))
       | Struct.SOut -> "-"
       | Struct.SUnsup -> "-") in
  (mirror, spec)

(* `c1c <hexsrc>`: compile only.  mirror: the code Build.v emits; spec: the jump-resolved layout of the parsed tree *)
let run_c1c (t : str array) : str * str =
  cur_fops := host_fops;
  let s0 = Boot.boot in
  let from = SL.length s0.code in
  let src = coq_of_string (string_of_hexbytes t.(0)) in
  let line res ops = Printf.sprintf "R=%s CODE=%s" res (cat " ; " (SL.map op_str ops)) in
  let mirror =
    match Build.compile !cur_fops parse_real run_fuel build_fuel src s0 with
    | ROk ((), s) -> line "ok" (drop from s.code)
    | RErr (k, p, s) -> line (err_text k p) (drop from s.code)
    | RPanic -> "PANIC"
    | RUnsup -> "UNSUP" in
  let spec =
    match Struct.parse_source !cur_fops parse_real src (nat_of_int (SL.length s0.heap)) with
    | None -> "-"
    | Some ((body, funs), _) ->
      (match Struct.layout_program funs body (nat_of_int from) with
       | Some ops -> line "ok" ops
       | None -> "-") in
  (mirror, spec)
