(* Lexer stream: tokens with spans; token_location. *)
type str = string
module SL = Stdlib.List
open Datatypes
open BinNums
open Prelude
open Bits
open Codec
open Cell
open Lexer
open Conv

let perr_str = function
  | PUntermStr -> "UntermStr" | PEscape -> "Escape" | PExpectWs -> "ExpectWs" | PUntermBits -> "UntermBits"
  | PBits -> "Bits" | PUntermComment -> "UntermComment" | PFloat -> "Float" | PInt -> "Int"

let tok_str (t : tok) : str =
  match t with
  | TEnd -> "End"
  | TWord w -> "W" ^ hexbytes_of_string (string_of_coq w)
  | TWs -> "_"
  | TComment -> "C"
  | TLit c -> "L" ^ cell_str c
  | TReal txt -> "LRtext:" ^ hexbytes_of_string (string_of_coq txt)
  | TErr (e, a, b) -> Printf.sprintf "E%s[%d-%d]" (perr_str e) (int_of_nat a) (int_of_nat b)

let run (t : str array) : str * str =
  match t.(0) with
  | "all" ->
    let src = string_of_hexbytes t.(1) in
    let toks = lex_string (coq_of_string src) in
    let m = Stdlib.String.concat "" (Stdlib.List.map (fun ((tk, a), b) ->
        Printf.sprintf "%s:%d-%d " (tok_str tk) (int_of_nat a) (int_of_nat b)) toks) in
    (* specification: the spans tile the input from 0, contiguously *)
    let rec tiles pos = function
      | [] -> true
      | ((_, a), b) :: r -> int_of_nat a = pos && int_of_nat b >= pos && tiles (int_of_nat b) r in
    let ok = tiles 0 toks in
    (m, if ok then "-" else "TILING-BROKEN")
  | "loc" ->
    let src = string_of_hexbytes t.(1) in
    let a = int_of_string t.(2) in
    let (((line, col), s), e) = token_location (coq_of_string src) (nat_of_int a) in
    (* independent specification, computed on the OCaml str *)
    let n = Stdlib.String.length src in
    let ln = ref 0 in
    for i = 0 to min a n - 1 do if src.[i] = '\n' then incr ln done;
    let ls = ref 0 in
    for i = 0 to min a n - 1 do if src.[i] = '\n' || src.[i] = '\r' then ls := i + 1 done;
    let le = ref n in
    (try for i = a to n - 1 do if src.[i] = '\n' || src.[i] = '\r' then (le := i; raise Exit) done with Exit -> ());
    let cols = ref 0 in
    for i = !ls to min a n - 1 do
      let c = Char.code src.[i] in if c < 128 || c >= 192 then incr cols done;
    (Printf.sprintf "%d %d %d-%d" (int_of_nat line) (int_of_nat col) (int_of_nat s) (int_of_nat e),
     Printf.sprintf "%d %d %d-%d" !ln !cols !ls !le)
  | other -> ("UNKNOWN-OP " ^ other, "-")
