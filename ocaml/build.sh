#!/bin/sh
# Rebuild the extracted model and the driver.
set -e
cd "$(dirname "$0")"
rm -rf _build.new
mkdir -p _build.new
cd _build.new
coqc -R ../../coq Xeh ../../coq/Extract/Extract.v >/dev/null
# the extracted Coq.Strings.String and Coq.Lists.List would shadow OCaml's own modules
for m in String List; do
  if [ -f $m.ml ]; then
    mv $m.ml Coq$m.ml; mv $m.mli Coq$m.mli
    sed -i "s/\\b$m\\./Coq$m./g; s/^open $m\$/open Coq$m/" *.ml *.mli
  fi
done
cp ../conv.ml ../*_drv.ml ../driver.ml .
ORDER=$(ocamlfind ocamldep -sort *.mli *.ml)
ocamlfind ocamlopt -package zarith,unix -linkpkg -O3 -w -a -o model_run $ORDER 2>/dev/null || ocamlfind ocamlopt -package zarith,unix -linkpkg -w -a -o model_run $ORDER
cd ..
rm -rf _build
mv _build.new _build
