#!/bin/sh
# Rebuild the extracted model and the driver.  Usage: build.sh (run from anywhere)
set -e
cd "$(dirname "$0")"
mkdir -p _build
cd _build
coqc -R ../../coq Xeh ../../coq/Extract/Extract.v >/dev/null
cp ../conv.ml ../*_drv.ml ../driver.ml .
ocamlfind ocamlopt -O3 -w -a -o model_run model.mli model.ml conv.ml $(ls *_drv.ml | sort) driver.ml 2>/dev/null \
 || ocamlfind ocamlopt -w -a -o model_run model.mli model.ml conv.ml $(ls *_drv.ml | sort) driver.ml
