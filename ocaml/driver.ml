(* Model side of the correspondence check: one case per line on stdin,
   one line "mirror ;; spec" per case on stdout. *)
let () =
  try
    while true do
      let line = input_line stdin in
      let toks = Array.of_list (List.filter (fun s -> s <> "") (String.split_on_char ' ' line)) in
      let (m, s) =
        if Array.length toks = 0 then ("EMPTY", "-") else
        try
          match toks.(0) with
          | "bs" -> Bits_drv.run (Array.sub toks 1 (Array.length toks - 1))
          | "lex" -> Lex_drv.run (Array.sub toks 1 (Array.length toks - 1))
          | "xs" -> Xs_drv.run (Array.sub toks 1 (Array.length toks - 1))
          | "xp" -> ("UNSUP", "-")     (* crash-freedom stream: implementation only *)
          | "pool" -> Pool_drv.run (Array.sub toks 1 (Array.length toks - 1))
          | "c1" -> Xs_drv.run_c1 (Array.sub toks 1 (Array.length toks - 1))
          | "c1c" -> Xs_drv.run_c1c (Array.sub toks 1 (Array.length toks - 1))
          | "xf" -> Xs_drv.run ~flocq:true (Array.sub toks 1 (Array.length toks - 1))
          | k -> ("UNKNOWN-KIND " ^ k, "-")
        with e -> ("MODEL-EXN " ^ Printexc.to_string e, "-")
      in
      print_string m; print_string " ;; "; print_endline s
    done
  with End_of_file -> ()
