(* Bit-str library stream: mirror result and specification result. *)
type str = string
module SL = Stdlib.List
open Datatypes
open BinNums
open Prelude
open Bits
open Codec
open Cell
open Lexer
open Conv

(* ownership situation -> value of Rc::strong_count == 1 *)
let unique own = (own = "u" || own = "b")

let opt f = function None -> "None" | Some x -> f x
let ord s = if s = "be" then Big else Little

let rec firstn k l = if k <= 0 then [] else match l with [] -> [] | x :: r -> x :: firstn (k-1) r
let rec skipn k l = if k <= 0 then l else match l with [] -> [] | _ :: r -> skipn (k-1) r

let after tl =
  Stdlib.String.concat "" (Stdlib.List.map (fun (hex, own) ->
    if own = "s" || own = "c" then
      " ~" ^ bits_of_cbs (from_bytes (bytes_of_hex hex))
    else "") tl)

let iter8_string l =
  if l = [] then "-" else
  Stdlib.String.concat "" (Stdlib.List.map (fun (v, n) -> Printf.sprintf "%s:%d," (hex_of_n v) (int_of_nat n)) l)

let spec_iter8 (l : bool list) =
  iter8_string (Stdlib.List.map (fun g -> (bits_to_N g, nat_of_int (Stdlib.List.length g))) (chunk8 l))

(* returns (mirror, spec) *)
let run (t : str array) : str * str =
  let v i = cbs_of t.(i) t.(i+1) t.(i+2) in
  let own i = t.(i+3) in
  let aft l = after (Stdlib.List.map (fun i -> (t.(i), t.(i+3))) l) in
  let ios = int_of_string in
  match t.(0) with
  | "bits" ->
    let a = v 1 in
    let m = bits_of_cbs a ^ aft [1] in
    let bl = bits a in
    let m2 = if bl = [] then "-" else Stdlib.String.concat "" (Stdlib.List.map (fun x -> if x = N0 then "0" else "1") bl) in
    (m2 ^ aft [1], m)
  | "iter8" ->
    let a = v 1 in (iter8_string (iter8 a), spec_iter8 (abs a))
  | "seek" ->
    let a = v 1 in let pos = ios t.(5) in
    let s = int_of_nat a.cstart and e = int_of_nat a.cend in
    let sp = if s <= pos && pos <= e then string_of_bools (skipn (pos - s) (abs a)) else "None" in
    (opt bits_of_cbs (seek a (nat_of_int pos)) ^ aft [1], sp ^ aft [1])
  | "detseek" | "invseek" ->
    let a = v 1 in let pos = ios t.(5) in
    let det = t.(0) = "detseek" in
    let r = if det then detach (unique (own 1)) a else invert (unique (own 1)) a in
    let l = if det then abs a else Stdlib.List.map not (abs a) in
    let sp = if pos <= Stdlib.List.length l then string_of_bools (skipn pos l) else "None" in
    (opt bits_of_cbs (seek r (nat_of_int pos)) ^ aft [1], sp ^ aft [1])
  | "appseek" ->
    let a = v 1 and b = v 5 in let pos = ios t.(9) in
    let r = append (unique (own 1)) a b in
    let l = abs a @ abs b in
    let sp = if pos <= Stdlib.List.length l then string_of_bools (skipn pos l) else "None" in
    (opt bits_of_cbs (seek r (nat_of_int pos)) ^ aft [1; 5], sp ^ aft [1; 5])
  | "read" ->
    let a = v 1 in let n = ios t.(5) in
    let l = abs a in
    let sp = if n <= Stdlib.List.length l then string_of_bools (firstn n l) ^ "|" ^ string_of_bools (skipn n l)
             else "None|" ^ string_of_bools l in
    let m = match read a (nat_of_int n) with
      | None -> "None|" ^ bits_of_cbs a
      | Some (r, rest) -> bits_of_cbs r ^ "|" ^ bits_of_cbs rest in
    (m ^ aft [1], sp ^ aft [1])
  | "peek" ->
    let a = v 1 in let n = ios t.(5) in
    let l = abs a in
    let sp = if n <= Stdlib.List.length l then string_of_bools (firstn n l) else "None" in
    (opt bits_of_cbs (peek a (nat_of_int n)) ^ aft [1], sp ^ aft [1])
  | "substr" ->
    let a = v 1 in let s = ios t.(5) and e = ios t.(6) in
    let s0 = int_of_nat a.cstart and e0 = int_of_nat a.cend in
    let sp = if s <= e && s0 <= s && e <= e0
      then string_of_bools (firstn (e - s) (skipn (s - s0) (abs a))) else "None" in
    (opt bits_of_cbs (substr a (nat_of_int s) (nat_of_int e)) ^ aft [1], sp ^ aft [1])
  | "split" ->
    let a = v 1 in let i = ios t.(5) in
    let l = abs a in
    let sp = if i <= Stdlib.List.length l then string_of_bools (firstn i l) ^ "|" ^ string_of_bools (skipn i l) else "None" in
    let m = match split_at a (nat_of_int i) with
      | None -> "None" | Some (x, y) -> bits_of_cbs x ^ "|" ^ bits_of_cbs y in
    (m, sp)
  | "append" ->
    let a = v 1 and b = v 5 in
    let m = bits_of_cbs (append (unique (own 1)) a b) ^ "|" ^ bits_of_cbs b in
    let sp = string_of_bools (abs a @ abs b) ^ "|" ^ bits_of_cbs b in
    (m ^ aft [1; 5], sp ^ aft [1; 5])
  | "append2" ->
    let a = v 1 and b = v 5 and c = v 9 in
    let keep = t.(13) = "k" in
    let r1 = append (unique (own 1)) a b in
    (* the intermediate result is uniquely owned unless a second handle is kept *)
    let r = append (not keep) r1 c in
    let m = bits_of_cbs r ^ (if keep then "|" ^ bits_of_cbs r1 else "") in
    let sp = string_of_bools (abs a @ abs b @ abs c) ^ (if keep then "|" ^ string_of_bools (abs a @ abs b) else "") in
    (m ^ aft [1; 5; 9], sp ^ aft [1; 5; 9])
  | "invapp" ->
    let a = v 1 and b = v 5 in
    let r1 = invert (unique (own 1)) a in
    let r = append true r1 b in
    (bits_of_cbs r ^ aft [1; 5], string_of_bools (Stdlib.List.map not (abs a) @ abs b) ^ aft [1; 5])
  | "insert" ->
    let a = v 1 and i = ios t.(5) and b = v 6 in
    let l = abs a in
    let sp = if i <= Stdlib.List.length l then string_of_bools (firstn i l @ abs b @ skipn i l) else "None" in
    (* split_at clones the handle twice: the left part is never uniquely owned *)
    (opt bits_of_cbs (insert false a (nat_of_int i) b) ^ aft [1; 6], sp ^ aft [1; 6])
  | "invert" ->
    let a = v 1 in
    (bits_of_cbs (invert (unique (own 1)) a) ^ aft [1], string_of_bools (Stdlib.List.map not (abs a)) ^ aft [1])
  | "detach" ->
    let a = v 1 in
    (bits_of_cbs (detach (unique (own 1)) a) ^ aft [1], bits_of_cbs a ^ aft [1])
  | "eq" ->
    let a = v 1 and b = v 5 in
    ((if eq_with a b then "T" else "F"), (if abs a = abs b then "T" else "F"))
  | "hex" ->
    let a = v 1 in
    let ds = to_hex_digits a in
    let m = if ds = [] then "-" else Stdlib.String.concat "" (Stdlib.List.map hex_of_n ds) in
    (* spec: each 8-bit group prints its value; a group of <= 4 bits prints one digit *)
    let sp = Stdlib.String.concat "" (Stdlib.List.map (fun g ->
        let x = int_of_n (bits_to_N g) in
        if Stdlib.List.length g > 4 then Printf.sprintf "%02x" x else Printf.sprintf "%x" x) (chunk8 (abs a))) in
    (m, if sp = "" then "-" else sp)
  | "tobytes" | "bytestr" | "slice" | "pad" ->
    let a = v 1 in
    let l = abs a in
    let groups = hex_of_bytes (Stdlib.List.map bits_to_N (chunk8 l)) in
    let aligned = (int_of_nat a.cstart) mod 8 = 0 in
    let whole = (Stdlib.List.length l) mod 8 = 0 in
    (match t.(0) with
     | "tobytes" -> (opt hex_of_bytes (to_bytes a), if whole then groups else "None")
     | "bytestr" -> (opt hex_of_bytes (bytestr a), if whole then groups else "None")
     | "slice" -> (opt hex_of_bytes (slice a), if whole && aligned then groups else "None")
     | _ -> (hex_of_bytes (to_bytes_with_padding a), groups))
  | "fromhex" ->
    (* digits only (whitespace and errors are exercised through the lexer stream) *)
    let s = if t.(1) = "-" then "" else t.(1) in
    let ds = Stdlib.List.init (Stdlib.String.length s) (fun i -> n_of_int (hexval s.[i])) in
    let sp = Stdlib.List.concat (Stdlib.List.map (fun d ->
        let x = int_of_n d in [x land 8 <> 0; x land 4 <> 0; x land 2 <> 0; x land 1 <> 0]) ds) in
    (bits_of_cbs (from_hex ds), string_of_bools sp)
  | "frombin" ->
    let l = bools_of_string t.(1) in
    (bits_of_cbs (of_bools l), string_of_bools l)
  | "touint" ->
    let a = v 2 in
    (hex_of_z (to_uint (ord t.(1)) a),
     if Stdlib.List.length (abs a) <= 128 then hex_of_z (spec_uint (ord t.(1)) (abs a)) else "-")
  | "toint" ->
    let a = v 2 in
    (hex_of_z (to_int (ord t.(1)) a),
     if Stdlib.List.length (abs a) <= 128 then hex_of_z (spec_int (ord t.(1)) (abs a)) else "-")
  | "fromint" ->
    let o = ord t.(1) and value = z_of_hex t.(2) and w = ios t.(3) in
    let r = from_int value (nat_of_int w) o in
    (bits_of_cbs r ^ "|" ^ hex_of_bytes (to_bytes_with_padding r), "-")
  | "rt" ->
    let o = ord t.(1) and signed = t.(2) = "s" and value = z_of_hex t.(3)
    and w = ios t.(4) and off = ios t.(5) in
    let field = from_int value (nat_of_int w) o in
    let pre = { cstart = O; cend = nat_of_int off; cdata = bytes_of_hex t.(6) } in
    let suf = from_bytes (bytes_of_hex t.(7)) in
    (* pre: slice of a fresh buffer whose parent is dropped -> unique *)
    let whole = append true (append true pre field) suf in
    let f = { whole with cstart = nat_of_int off; cend = nat_of_int (off + w) } in
    let m = if signed then hex_of_z (to_int o f) else hex_of_z (to_uint o f) in
    let two_w = BinInt.Z.pow (z_of_int 2) (z_of_int w) in
    let u = BinInt.Z.modulo value two_w in
    let sp = if signed then hex_of_z (sext (nat_of_int w) u) else hex_of_z u in
    (m, sp)
  | "layout" ->
    let o = ord t.(1) and value = z_of_hex t.(2) and k = ios t.(3) in
    let r = from_int value (nat_of_int (8 * k)) o in
    let sp = match o with Big -> be_layout (nat_of_int k) value | Little -> le_layout (nat_of_int k) value in
    (opt hex_of_bytes (to_bytes r), hex_of_bytes sp)
  | "f32" | "f64" ->
    let k = if t.(0) = "f32" then 4 else 8 in
    let o = ord t.(1) and pat = z_of_hex t.(2) and off = ios t.(3) in
    let field = from_fbits (nat_of_int k) o pat in
    let pre = { cstart = O; cend = nat_of_int off; cdata = bytes_of_hex t.(4) } in
    let whole = append true pre field in
    let f = { whole with cstart = nat_of_int off; cend = nat_of_int (off + 8 * k) } in
    let fb = opt hex_of_bytes (to_bytes field) in
    let layout = match o with Big -> be_layout (nat_of_int k) pat | Little -> le_layout (nat_of_int k) pat in
    (hex_of_z (to_fbits (nat_of_int k) o f) ^ "|" ^ fb, hex_of_z pat ^ "|" ^ hex_of_bytes layout)
  | "tof" ->
    let k = ios t.(1) in let a = v 3 in
    (hex_of_z (to_fbits (nat_of_int k) (ord t.(2)) a), "-")
  | other -> ("UNKNOWN-OP " ^ other, "-")
