(* Conversions between the text protocol and the extracted Coq datatypes. *)
type str = string
module SL = Stdlib.List
open Datatypes
open BinNums
open Prelude
open Bits
open Codec
open Cell
open Lexer

let nat_of_int (i : int) : nat =
  let r = ref O in
  for _ = 1 to i do r := S !r done; !r

let int_of_nat (n : nat) : int =
  let rec go acc = function O -> acc | S m -> go (acc + 1) m in go 0 n

(* positive <-> hex *)
let rec pos_bits_lsb (p : positive) : int list =
  match p with Coq_xH -> [1] | Coq_xO q -> 0 :: pos_bits_lsb q | Coq_xI q -> 1 :: pos_bits_lsb q

let hex_of_bits_lsb (bits : int list) : str =
  let a = Array.of_list bits in
  let n = Array.length a in
  let nd = (n + 3) / 4 in
  let b = Buffer.create nd in
  for d = nd - 1 downto 0 do
    let v = ref 0 in
    for k = 3 downto 0 do
      let i = d * 4 + k in
      v := !v * 2 + (if i < n then a.(i) else 0)
    done;
    Buffer.add_char b "0123456789abcdef".[!v]
  done;
  Buffer.contents b

let hex_of_pos p = hex_of_bits_lsb (pos_bits_lsb p)
let hex_of_n (x : coq_N) = match x with N0 -> "0" | Npos p -> hex_of_pos p
let hex_of_z (x : coq_Z) = match x with Z0 -> "0" | Zpos p -> hex_of_pos p | Zneg p -> "-" ^ hex_of_pos p

let hexval c =
  match c with
  | '0'..'9' -> Char.code c - 48
  | 'a'..'f' -> Char.code c - 87
  | 'A'..'F' -> Char.code c - 55
  | _ -> failwith "hexval"

(* msb-first bits of a hex str, leading zeros removed; None if zero *)
let pos_of_hex (s : str) : positive option =
  let acc = ref None in
  Stdlib.String.iter (fun c ->
    let v = hexval c in
    for k = 3 downto 0 do
      let b = (v lsr k) land 1 in
      acc := (match !acc with
              | None -> if b = 1 then Some Coq_xH else None
              | Some p -> Some (if b = 1 then Coq_xI p else Coq_xO p))
    done) s;
  !acc

let n_of_hex s = match pos_of_hex s with None -> N0 | Some p -> Npos p
let z_of_hex s =
  if Stdlib.String.length s > 0 && s.[0] = '-' then
    (match pos_of_hex (Stdlib.String.sub s 1 (Stdlib.String.length s - 1)) with None -> Z0 | Some p -> Zneg p)
  else (match pos_of_hex s with None -> Z0 | Some p -> Zpos p)

let n_of_int (i : int) : coq_N = n_of_hex (Printf.sprintf "%x" i)
let int_of_n (x : coq_N) : int = int_of_string ("0x" ^ hex_of_n x)
let z_of_int (i : int) : coq_Z = if i < 0 then (match n_of_int (-i) with N0 -> Z0 | Npos p -> Zneg p)
                             else (match n_of_int i with N0 -> Z0 | Npos p -> Zpos p)

let bytes_of_hex (s : str) : coq_N list =
  if s = "-" then [] else
  let l = ref [] in
  let i = ref (Stdlib.String.length s - 2) in
  while !i >= 0 do
    l := n_of_int (hexval s.[!i] * 16 + hexval s.[!i + 1]) :: !l;
    i := !i - 2
  done; !l

let hex_of_bytes (l : coq_N list) : str =
  if l = [] then "-" else
  Stdlib.String.concat "" (Stdlib.List.map (fun x -> Printf.sprintf "%02x" (int_of_n x)) l)

let string_of_bools (l : bool list) : str =
  if l = [] then "-" else
  let b = Buffer.create 64 in
  Stdlib.List.iter (fun x -> Buffer.add_char b (if x then '1' else '0')) l;
  Buffer.contents b

let bools_of_string (s : str) : bool list =
  if s = "-" then [] else Stdlib.List.init (Stdlib.String.length s) (fun i -> s.[i] = '1')

let cbs_of hex s e : cbs =
  { cstart = nat_of_int (int_of_string s); cend = nat_of_int (int_of_string e); cdata = bytes_of_hex hex }

let bits_of_cbs (c : cbs) : str = string_of_bools (abs c)

(* ---- Coq strings (UTF-8 bytes) ---- *)
let ascii_of_code (c : int) : Ascii.ascii =
  let b k = (c lsr k) land 1 = 1 in
  Ascii.Ascii (b 0, b 1, b 2, b 3, b 4, b 5, b 6, b 7)
let code_of_ascii (a : Ascii.ascii) : int =
  match a with Ascii.Ascii (b0, b1, b2, b3, b4, b5, b6, b7) ->
    let v b k = if b then 1 lsl k else 0 in
    v b0 0 + v b1 1 + v b2 2 + v b3 3 + v b4 4 + v b5 5 + v b6 6 + v b7 7

let coq_of_string (s : str) : CoqString.string =
  let r = ref CoqString.EmptyString in
  for i = Stdlib.String.length s - 1 downto 0 do r := CoqString.String (ascii_of_code (Char.code s.[i]), !r) done; !r
let string_of_coq (s : CoqString.string) : str =
  let b = Buffer.create 32 in
  let rec go = function CoqString.EmptyString -> () | CoqString.String (a, r) -> Buffer.add_char b (Char.chr (code_of_ascii a)); go r in
  go s; Buffer.contents b

let string_of_hexbytes (h : str) : str =
  if h = "-" then "" else Stdlib.String.init (Stdlib.String.length h / 2) (fun i -> Char.chr (hexval h.[2*i] * 16 + hexval h.[2*i+1]))
let hexbytes_of_string (s : str) : str =
  if s = "" then "-" else Stdlib.String.concat "" (Stdlib.List.init (Stdlib.String.length s) (fun i -> Printf.sprintf "%02x" (Char.code s.[i])))

(* ---- canonical cells ---- *)
let rec cell_str (c : cell) : str =
  match c with
  | CNil -> "N"
  | CFlag true -> "T" | CFlag false -> "F"
  | CInt z -> "I" ^ hex_of_z z
  | CReal p -> if f64_is_nan p then "Rnan" else
      let h = hex_of_z p in "R" ^ Stdlib.String.make (16 - Stdlib.String.length h) '0' ^ h
  | CStr s -> "S" ^ hexbytes_of_string (string_of_coq s)
  | CVec l -> "V(" ^ Stdlib.String.concat "," (Stdlib.List.map cell_str l) ^ ")"
  | CMap m -> map_str m
  | CFun (FInterp a) -> "Fi" ^ string_of_int (int_of_nat a)
  | CFun (FNative n) -> "Fn" ^ string_of_coq n
  | CBits b -> "B" ^ bits_of_cbs b
  | CAny -> "A"
  | CTag (t, v) -> "G(" ^ cell_str v ^ "," ^ map_str t ^ ")"
and map_str m = "M(" ^ Stdlib.String.concat "," (Stdlib.List.map (fun (k, v) -> cell_str k ^ "=" ^ cell_str v) m) ^ ")"

(* parser of canonical cells; maps are rebuilt with assoc_insert so that the
   model's sortedness invariant holds whatever order the text lists them in *)
let parse_cell (s : str) : cell =
  let n = Stdlib.String.length s in
  let pos = ref 0 in
  let peek () = if !pos < n then s.[!pos] else '\000' in
  let take_while f = let st = !pos in while !pos < n && f s.[!pos] do incr pos done; Stdlib.String.sub s st (!pos - st) in
  let is_tok c = not (c = ',' || c = ')' || c = '=' || c = '(') in
  let rec cell () : cell =
    let c = peek () in incr pos;
    match c with
    | 'N' -> CNil | 'T' -> CFlag true | 'F' when (peek () <> 'i' && peek () <> 'n') -> CFlag false
    | 'F' -> let k = peek () in incr pos; let t = take_while is_tok in
      if k = 'i' then CFun (FInterp (nat_of_int (int_of_string t))) else CFun (FNative (coq_of_string t))
    | 'I' -> CInt (z_of_hex (take_while is_tok))
    | 'R' -> let t = take_while is_tok in
      if t = "nan" then CReal (z_of_hex "7ff8000000000000") else CReal (z_of_hex t)
    | 'S' -> CStr (coq_of_string (string_of_hexbytes (take_while is_tok)))
    | 'B' -> let t = take_while is_tok in of_bools (bools_of_string t) |> fun b -> CBits b
    | 'W' ->
      (* W<pre>.<post>.<bits>: the same view as the harness builds (junk bits 1010.. before and after) *)
      let t = take_while is_tok in
      (match Stdlib.String.split_on_char '.' t with
       | [a; b; bits] ->
         let pre = int_of_string a and post = int_of_string b in
         let bits = if bits = "-" then "" else bits in
         let junk n = Stdlib.String.init n (fun i -> if i mod 2 = 0 then '1' else '0') in
         let full = junk pre ^ bits ^ junk post in
         let w = of_bools (bools_of_string full) in
         CBits { cstart = nat_of_int pre; cend = nat_of_int (pre + Stdlib.String.length bits); cdata = w.cdata }
       | _ -> failwith ("parse_cell W " ^ t))
    | 'A' -> CAny
    | 'V' -> incr pos; (* ( *)
      let l = ref [] in
      if peek () = ')' then incr pos else begin
        let continue = ref true in
        while !continue do
          l := cell () :: !l;
          if peek () = ',' then incr pos else (incr pos; continue := false)
        done end;
      CVec (Stdlib.List.rev !l)
    | 'M' -> CMap (mapbody ())
    | 'G' -> incr pos;
      let v = cell () in incr pos; (* , *)
      incr pos; (* M *)
      let t = mapbody () in incr pos; (* ) *)
      CTag (t, v)
    | c -> failwith (Printf.sprintf "parse_cell %c in %s" c s)
  and mapbody () =
    incr pos; (* ( *)
    let m = ref [] in
    if peek () = ')' then incr pos else begin
      let continue = ref true in
      while !continue do
        let k = cell () in incr pos; (* = *)
        let v = cell () in
        m := assoc_insert !m k v;
        if peek () = ',' then incr pos else (incr pos; continue := false)
      done end;
    !m
  in cell ()
