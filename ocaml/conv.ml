(* Conversions between the text protocol and the extracted Coq datatypes. *)
open Model

let nat_of_int (i : int) : nat =
  let r = ref O in
  for _ = 1 to i do r := S !r done; !r

let int_of_nat (n : nat) : int =
  let rec go acc = function O -> acc | S m -> go (acc + 1) m in go 0 n

(* positive <-> hex *)
let rec pos_bits_lsb (p : positive) : int list =
  match p with XH -> [1] | XO q -> 0 :: pos_bits_lsb q | XI q -> 1 :: pos_bits_lsb q

let hex_of_bits_lsb (bits : int list) : string =
  let a = Array.of_list bits in
  let n = Array.length a in
  let nd = (n + 3) / 4 in
  let b = Buffer.create nd in
  for d = nd - 1 downto 0 do
    let v = ref 0 in
    for k = 3 downto 0 do
      let i = d * 4 + k in
      v := !v * 2 + (if i < n then a.(i) else 0)
    done;
    Buffer.add_char b "0123456789abcdef".[!v]
  done;
  Buffer.contents b

let hex_of_pos p = hex_of_bits_lsb (pos_bits_lsb p)
let hex_of_n (x : n) = match x with N0 -> "0" | Npos p -> hex_of_pos p
let hex_of_z (x : z) = match x with Z0 -> "0" | Zpos p -> hex_of_pos p | Zneg p -> "-" ^ hex_of_pos p

let hexval c =
  match c with
  | '0'..'9' -> Char.code c - 48
  | 'a'..'f' -> Char.code c - 87
  | 'A'..'F' -> Char.code c - 55
  | _ -> failwith "hexval"

(* msb-first bits of a hex string, leading zeros removed; None if zero *)
let pos_of_hex (s : string) : positive option =
  let acc = ref None in
  String.iter (fun c ->
    let v = hexval c in
    for k = 3 downto 0 do
      let b = (v lsr k) land 1 in
      acc := (match !acc with
              | None -> if b = 1 then Some XH else None
              | Some p -> Some (if b = 1 then XI p else XO p))
    done) s;
  !acc

let n_of_hex s = match pos_of_hex s with None -> N0 | Some p -> Npos p
let z_of_hex s =
  if String.length s > 0 && s.[0] = '-' then
    (match pos_of_hex (String.sub s 1 (String.length s - 1)) with None -> Z0 | Some p -> Zneg p)
  else (match pos_of_hex s with None -> Z0 | Some p -> Zpos p)

let n_of_int (i : int) : n = n_of_hex (Printf.sprintf "%x" i)
let int_of_n (x : n) : int = int_of_string ("0x" ^ hex_of_n x)
let z_of_int (i : int) : z = if i < 0 then (match n_of_int (-i) with N0 -> Z0 | Npos p -> Zneg p)
                             else (match n_of_int i with N0 -> Z0 | Npos p -> Zpos p)

let bytes_of_hex (s : string) : n list =
  if s = "-" then [] else
  let l = ref [] in
  let i = ref (String.length s - 2) in
  while !i >= 0 do
    l := n_of_int (hexval s.[!i] * 16 + hexval s.[!i + 1]) :: !l;
    i := !i - 2
  done; !l

let hex_of_bytes (l : n list) : string =
  if l = [] then "-" else
  String.concat "" (List.map (fun x -> Printf.sprintf "%02x" (int_of_n x)) l)

let string_of_bools (l : bool list) : string =
  if l = [] then "-" else
  let b = Buffer.create 64 in
  List.iter (fun x -> Buffer.add_char b (if x then '1' else '0')) l;
  Buffer.contents b

let bools_of_string (s : string) : bool list =
  if s = "-" then [] else List.init (String.length s) (fun i -> s.[i] = '1')

let cbs_of hex s e : cbs =
  { cstart = nat_of_int (int_of_string s); cend = nat_of_int (int_of_string e); cdata = bytes_of_hex hex }

let bits_of_cbs (c : cbs) : string = string_of_bools (abs c)
