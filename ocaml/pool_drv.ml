(* Handle-pool stream on Store.v *)
type str = string
module SL = Stdlib.List
open Datatypes
open BinNums
open Prelude
open Bits
open Conv

let show (sp : Store.store * Store.handle list) : str =
  let vs = Store.pool_view sp in
  if vs = [] then "." else Stdlib.String.concat "," (SL.map string_of_bools vs)

let run (t : str array) : str * str =
  let sp = ref ([], []) in
  let outs = ref [] in
  SL.iter (fun op ->
    if op <> "" then begin
      let k = op.[0] in
      let f = Array.of_list (Stdlib.String.split_on_char ':' (Stdlib.String.sub op 1 (Stdlib.String.length op - 1))) in
      let n i = nat_of_int (int_of_string f.(i)) in
      let o = match k with
        | 'n' -> Store.PNew (bytes_of_hex f.(0), f.(1) = "b")
        | 'c' -> Store.PClone (n 0)
        | 'd' -> Store.PDrop (n 0)
        | 's' -> Store.PSubstr (n 0, n 1, n 2)
        | 't' -> Store.PDetach (n 0)
        | 'a' -> Store.PAppend (n 0, n 1)
        | 'v' -> Store.PInvert (n 0)
        | 'i' -> Store.PInsert (n 0, n 1, n 2)
        | _ -> failwith "pool op" in
      sp := Store.pool_step !sp o;
      outs := show !sp :: !outs
    end) (Stdlib.String.split_on_char ';' t.(0));
  (Stdlib.String.concat " | " (SL.rev !outs), "-")
